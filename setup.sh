#!/bin/sh
# Nothing to compile: verify the tool chain the checks need (offline).
set -e
cd "$(dirname "$0")"
java -version >/dev/null 2>&1
test -f /opt/veriftools/tla/tla2tools.jar
/venv/bin/python -c "import antlr4, numpy, sympy, networkx, json, sys; sys.path.insert(0,'/repo/blackbird_python'); import blackbird"
mkdir -p evidence replays
echo "setup ok"
