"""Token types -> text.  The lexeme table is not trusted: every rendered text is lexed again by the
real lexer (whose equivalence with the grammar is C14's subject) and dropped if the types differ."""

LEXEMES = {
    "INT": ["7", "0", "12"], "FLOAT": ["1.5", "2e3", "1.0"], "COMPLEX": ["2j", "1+2j"], "STR": ['"s"', '""', '"50% {} %s {0}"', '"\u00e9 \u65e5\u672c"'],
    "BOOL": ["True", "False"], "SEQUENCE": ["1,2"], "NEWLINE": ["\n"], "TAB": ["\t", "    "],
    "NAME": ["abc", "x", "G_1"], "DEVICE": ["a.b", "1.x"], "REGREF": ["q0", "q12"], "MEASURE": ["MeasureX", "Measure"],
    "ANY": ["$", "@", "%", "\u00e9"],
}
TIGHT = {"NEWLINE", "TAB"}


def lexeme(g, ty, variant=0):
    name = g.tokname[ty]
    if name in LEXEMES:
        v = LEXEMES[name]
        return v[variant % len(v)]
    for r in g.lrules:
        if r["name"] == name:
            a = r["alts"][0]["seq"]
            if len(r["alts"]) == 1 and len(a) == 1 and a[0]["t"] == "lit":
                return "".join(chr(c) for c in a[0]["cps"])
    return None


def render_tokens(g, types, variant=0):
    """One space between tokens, none next to NEWLINE/TAB (a space there would merge into SPACE)."""
    out = []
    prev_tight = True
    for ty in types:
        name = g.tokname[ty]
        lx = lexeme(g, ty, variant)
        if lx is None:
            return None
        tight = name in TIGHT
        if out and not tight and not prev_tight:
            out.append(" ")
        out.append(lx)
        prev_tight = tight
    return "".join(out)
