"""Development tool (not a registered check): ask the TLA+ oracle (Trace_Load.tla) what a script text denotes and compare
with the real load, trace included.
usage: python -m harness.asktlc <file.xbb | ->      (reads stdin for "-")"""
import json, sys


def main():
    from . import absyn, realrun, tracer, oracle_load, progcmp, values
    text = sys.stdin.read() if sys.argv[1] == "-" else open(sys.argv[1]).read()
    s = absyn.tree2abs(realrun.parse_tree(text), None)
    atoms = []
    s2 = oracle_load.shrink(s, atoms)
    with tracer.recording() as ev:
        real = realrun.loads(text)
    r, res = oracle_load.run([dict(s=s2, files=[], base=["r"], events=list(ev))])
    o = res[0]
    values.EXTRA_ATOMS = dict(enumerate(atoms))
    why = progcmp.cmp_outcome(o["out"], real, sections=("meta", "ops", "modes", "vars", "params"), strict_cls=False)
    print("oracle :", json.dumps(o["out"])[:3000])
    print("real   :", repr(real)[:600])
    if real[0] == "ok":
        print("   ops :", real[1].operations)
        print("   vars:", real[1]._var, " params:", real[1].parameters)
    print("trace  :", o["trace"], "at", o["at"], "| inscope", o["inscope"])
    print("verdict:", why or "agree")


if __name__ == "__main__":
    main()
