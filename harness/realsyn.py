"""Drive the generated Python lexer/parser and blackbird.loads of the working tree."""
import re, sys, os, warnings
from . import common

_rp = os.path.join(common.REPO, "blackbird_python")
if _rp not in sys.path:
    sys.path.insert(0, _rp)
import antlr4                                                   # noqa: E402
from antlr4.error.ErrorListener import ErrorListener            # noqa: E402
from blackbird.blackbirdLexer import blackbirdLexer             # noqa: E402
from blackbird.blackbirdParser import blackbirdParser           # noqa: E402
import blackbird                                                # noqa: E402


def lex(text):
    """Tokens on the default channel as dicts (type, start, stop, line, column), EOF excluded."""
    lx = blackbirdLexer(antlr4.InputStream(text))
    lx.removeErrorListeners()
    out = []
    for t in lx.getAllTokens():
        if t.channel == 0:
            out.append(dict(ty=t.type, start=t.start, stop=t.stop, line=t.line, col=t.column))
    return out


class _Stop(Exception):
    pass


class _EL(ErrorListener):
    def syntaxError(self, recognizer, offendingSymbol, line, column, msg, e):
        raise _Stop(offendingSymbol.tokenIndex, line, column)


def parse_verdict(text):
    """-1 if blackbirdParser.start() accepts, else the index (among default-channel tokens, EOF = count)
    of the first token the parser reports."""
    lx = blackbirdLexer(antlr4.InputStream(text))
    lx.removeErrorListeners()
    ts = antlr4.CommonTokenStream(lx)
    p = blackbirdParser(ts)
    p.removeErrorListeners()
    p.addErrorListener(_EL())
    try:
        p.start()
        return -1
    except _Stop as s:
        return s.args[0]


class Walked(Exception):
    pass


_orig_walk = antlr4.ParseTreeWalker.walk


def loads_syntax_stage(text, via="loads"):
    """Run blackbird.loads (or, via="load", blackbird.load on a UTF-8 file holding the text); report
    (stage_passed, exc_type_name, message).  stage_passed: the parse finished and the tree walker was entered."""
    state = {"walk": False}
    path = None
    if via == "load":
        import os, tempfile
        fd, path = tempfile.mkstemp(suffix=".xbb", prefix="bbsyn_")
        with os.fdopen(fd, "wb") as fh:
            fh.write(text.encode("utf-8"))

    def walk(self, listener, t):
        state["walk"] = True
        raise Walked()
    antlr4.ParseTreeWalker.walk = walk
    try:
        with warnings.catch_warnings():
            warnings.simplefilter("ignore")
            try:
                if path is None:
                    blackbird.loads(text)
                else:
                    blackbird.load(path)
                return (state["walk"], None, "")
            except Walked:
                return (True, None, "")
            except BaseException as e:          # noqa: BLE001
                return (state["walk"], type(e).__name__, str(e.args[0]) if e.args else str(e))
    finally:
        antlr4.ParseTreeWalker.walk = _orig_walk
        if path is not None:
            import os
            os.remove(path)


_POS = re.compile(r"line (\d+):(\d+)")


def msg_pos(msg):
    m = _POS.search(msg or "")
    return (int(m.group(1)), int(m.group(2))) if m else None


def token_index_at(text, line, col0):
    """Index (EOF = number of tokens) of the default-channel token starting at (line, 0-based col)."""
    toks = lex(text)
    for i, t in enumerate(toks):
        if t["line"] == line and t["col"] == col0:
            return i
    # EOF position
    lx = blackbirdLexer(antlr4.InputStream(text))
    lx.removeErrorListeners()
    last = None
    while True:
        t = lx.nextToken()
        if t.type == antlr4.Token.EOF:
            last = t
            break
    if last.line == line and last.column == col0:
        return len(toks)
    return None
