"""Generation of the syntax-layer data modules from the working tree (shared by C10, C14, C18)."""
import os
from . import common, g4, atn

PY_DIR = "blackbird_python/blackbird"
CPP_DIR = "blackbird_cpp"


class Syntax:
    def __init__(self):
        self.g = g4.Grammar()
        self.lex_ints = atn.ints_from_python(PY_DIR + "/blackbirdLexer.py")
        self.par_ints = atn.ints_from_python(PY_DIR + "/blackbirdParser.py")
        self.lex_atn = atn.deserialize(self.lex_ints)
        self.par_atn = atn.deserialize(self.par_ints)
        self.lex_tb = atn.lexer_tables(self.lex_atn)
        self.par_tb = atn.parser_tables(self.par_atn, self.g.EOF)
        sets = self.g.char_sets() + [s for a in self.lex_tb["atom"] for s, _ in a]
        self.classes, self.cls_of = atn.char_classes(sets)

    def modules(self):
        return {
            "G4Data.tla": self.g.parser_module(),
            "LexG4Data.tla": self.g.lexer_module(self.cls_of),
            "LexATNData.tla": atn.lexer_module(self.lex_tb, self.cls_of, len(self.classes)),
            "ParATNData.tla": atn.parser_module(self.par_tb),
        }

    def classify(self, text):
        """text -> sequence of character-class numbers (what the TLA+ lexer machines read)."""
        return [self.cls_of[min(ord(c), 128)] for c in text]


# rule contexts the sentence generator is started in (token names; each is a viable prefix of a script)
_META = "PROGNAME NAME NEWLINE VERSION FLOAT NEWLINE"
CONTEXTS = {
    "start": "",
    "program": _META,
    "metadata-options": "PROGNAME NAME NEWLINE VERSION FLOAT NEWLINE TARGET NAME LBRAC NAME ASSIGN",
    "type-and-include": "PROGNAME NAME NEWLINE VERSION FLOAT NEWLINE PROGTYPE NAME NEWLINE INCLUDE STR NEWLINE",
    "scalar-declaration": _META + " TYPE_FLOAT NAME ASSIGN",
    "array-header": _META + " TYPE_INT TYPE_ARRAY NAME LSQBRAC INT COMMA",
    "array-body": _META + " TYPE_FLOAT TYPE_ARRAY NAME ASSIGN NEWLINE TAB INT COMMA FLOAT NEWLINE",
    "arguments": _META + " NAME LBRAC INT COMMA",
    "keyword-arguments": _META + " NAME LBRAC NAME ASSIGN LSQBRAC INT COMMA",
    "expression": _META + " NAME LBRAC MINUS INT PWR",
    "modes": _META + " NAME APPLY LSQBRAC INT COMMA",
    "after-statement": _META + " MEASURE APPLY INT NEWLINE",
    "loop-header": _META + " FOR TYPE_INT NAME IN",
    "loop-range": _META + " FOR TYPE_INT NAME IN INT COLON INT",
    "loop-list": _META + " FOR TYPE_FLOAT NAME IN LSQBRAC FLOAT COMMA",
    "loop-body": _META + " FOR TYPE_INT NAME IN INT COLON INT NEWLINE TAB NAME APPLY NAME NEWLINE",
    "loop-body-second": _META + " FOR TYPE_INT NAME IN INT COLON INT NEWLINE TAB NAME APPLY NAME NEWLINE TAB NAME LBRAC NAME RBRAC APPLY INT NEWLINE",
    "parameter": _META + " NAME LBRAC LBRACE",
    "modes-bare-paren": _META + " NAME APPLY LBRAC INT RBRAC",               # "G | (0)" may go on as "(0)*2", "(0), 1", "(0)+1"
    "modes-paren-sum": _META + " NAME APPLY LBRAC INT PLUS INT RBRAC",      # "G | (0+1)" ... "*2"
    "argument-paren": _META + " NAME LBRAC LBRAC INT RBRAC",                 # "G((1)" ... "**2, ..."
    "loop-list-bare-paren": _META + " FOR TYPE_INT NAME IN LBRAC INT RBRAC",  # "for int i in (1)" ... "*2", ", 3"
}


def context_tokens(g, name):
    return [g.toknum[n] for n in CONTEXTS[name].split()]
