"""Generation of the syntax-layer data modules from the working tree (shared by C10, C14, C18)."""
import os
from . import common, g4, atn

PY_DIR = "blackbird_python/blackbird"
CPP_DIR = "blackbird_cpp"


class Syntax:
    def __init__(self):
        self.g = g4.Grammar()
        self.lex_ints = atn.ints_from_python(PY_DIR + "/blackbirdLexer.py")
        self.par_ints = atn.ints_from_python(PY_DIR + "/blackbirdParser.py")
        self.lex_atn = atn.deserialize(self.lex_ints)
        self.par_atn = atn.deserialize(self.par_ints)
        self.lex_tb = atn.lexer_tables(self.lex_atn)
        self.par_tb = atn.parser_tables(self.par_atn, self.g.EOF)
        sets = self.g.char_sets() + [s for a in self.lex_tb["atom"] for s, _ in a]
        self.classes, self.cls_of = atn.char_classes(sets)

    def modules(self):
        return {
            "G4Data.tla": self.g.parser_module(),
            "LexG4Data.tla": self.g.lexer_module(self.cls_of),
            "LexATNData.tla": atn.lexer_module(self.lex_tb, self.cls_of, len(self.classes)),
            "ParATNData.tla": atn.parser_module(self.par_tb),
        }

    def classify(self, text):
        """text -> sequence of character-class numbers (what the TLA+ lexer machines read)."""
        return [self.cls_of[min(ord(c), 128)] for c in text]
