"""Random scripts (harness/randgen.py) with TLC as oracle: rendered, self-checked, loaded by the real code with the listener's
callbacks recorded, judged by Trace_Load.tla (outcome + trace verdict + C01 scope)."""
import random
from . import common, absyn, randgen, oracle_load


def build(seed, n):
    """-> list of cases: s (abstract), s_tlc (literals shrunk), atoms, text, real (realrun.loads result), events"""
    from . import realrun, tracer
    out = []
    for i, s in enumerate(randgen.scripts(seed, n)):
        text = absyn.render(s, random.Random(seed * 1000003 + i))
        try:
            back = absyn.tree2abs(realrun.parse_tree(text), None)
        except BaseException as e:      # noqa: BLE001
            raise common.MachineryError("random script does not parse: %s %s\n%s" % (type(e).__name__, e, text))
        if back != s:
            raise common.MachineryError("random script does not parse back to itself:\n%s" % text)
        with tracer.recording() as ev:
            real = realrun.loads(text)
        atoms = []
        out.append(dict(s=s, s_tlc=oracle_load.shrink(s, atoms), atoms=atoms, text=text, real=real, events=list(ev), seed=seed * 1000003 + i))
    return out


def judge(rep, cases, label):
    """run the oracle; attach 'out', 'trace', 'at', 'inscope' to each case; returns the TlcResult"""
    r, res = oracle_load.run([dict(s=c["s_tlc"], files=[], base=["r"], events=c["events"]) for c in cases])
    rep.add_tlc(r, label)
    for c, o in zip(cases, res):
        c["out"], c["trace"], c["at"], c["inscope"] = o["out"], o["trace"], o["at"], o.get("inscope", False)
    return r
