"""TLC as batch oracle for harness-supplied scripts (repository examples, test-suite snippets, random
scripts) and as validator of the traces recorded from the real listener (Trace_Load.tla)."""
import json, os
from fractions import Fraction
from . import common

BIG = 9999


def shrink(node, atoms):
    """replace literals too long for TLC's 32-bit integers by opaque atoms (valued by the harness)"""
    if isinstance(node, list):
        return [shrink(x, atoms) for x in node]
    if not isinstance(node, dict):
        return node
    t = node.get("t")
    if t == "int" and abs(node["n"]) > BIG:
        atoms.append(node["n"])
        return {"t": "atom", "k": "int", "a": len(atoms) - 1}
    if t == "flt" and (abs(node["n"]) > BIG or node["d"] > BIG):
        atoms.append(float(Fraction(node["n"], node["d"])))
        return {"t": "atom", "k": "float", "a": len(atoms) - 1}
    if t == "cpx" and max(abs(node["re"][0]), node["re"][1], abs(node["im"][0]), node["im"][1]) > BIG:
        atoms.append(complex(float(Fraction(*node["re"])), float(Fraction(*node["im"]))))
        return {"t": "atom", "k": "complex", "a": len(atoms) - 1}
    return {k: shrink(v, atoms) for k, v in node.items()}


def run(cases, workers=16, timeout=3000):
    """cases: dicts with s (abstract script, incs as path records), files ([{path, s}]), base (dir list), events (list, may be empty).
    Returns (TlcResult, list of {out, trace, at}) in case order."""
    path = os.path.join(common.scratch(), "loadcases_%d.json" % len(os.listdir(common.scratch())))
    payload = [dict(s=c["s"], files=c.get("files", []), base=c.get("base", []), rawbase=c.get("rawbase", c.get("base", [])), events=c.get("events", [])) for c in cases]
    with open(path, "w") as fh:
        json.dump(payload, fh)
    cfg = ("CONSTANT ClearTablesAtLoadStart = TRUE\nCONSTANT FS <- TraceFS\nINIT Init\nNEXT Next\nINVARIANT LoopVarScoped\nCONSTRAINT Emit\n")
    r = common.run_tlc("Trace_Load", cfg, env={"CASE_FILE": path}, workers=workers, timeout=timeout, jvm=["-Xss64m"])
    common.require_ok(r, "Trace_Load")
    if r.violated:
        raise common.MachineryError("Trace_Load: invariant %s violated on a real trace\n%s" % (r.violated, r.counterexample()[:2500]))
    res = {}
    for o in r.tagged("ORACLE"):
        res[o["k"]] = o
    if len(res) != len(cases):
        raise common.MachineryError("Trace_Load: %d verdicts for %d cases\n%s" % (len(res), len(cases), r.out[-2500:]))
    os.remove(path)
    return r, [res[i + 1] for i in range(len(cases))]
