"""Run a batch of cases in THIS interpreter (started with a given PYTHONHASHSEED) and write per-case results.
usage: python -m harness.seedrun <jobfile> <outfile>"""
import hashlib, json, os, random, shutil, sys, tempfile, warnings


def digest_program(p):
    """content of a loaded program, with the documented freedom (order of regrefs) normalised"""
    import numpy as np
    import sympy as sym

    def d(x):
        if type(x).__name__ == "RegRefTransform":
            return ("rrt", tuple(sorted(x.regrefs)), str(sym.simplify(x.expr)) if False else sym.srepr(sym.expand(x.expr)))
        if isinstance(x, dict):
            return ("dict", tuple((k, d(v)) for k, v in x.items()))
        if isinstance(x, (list, tuple)):
            return ("list", tuple(d(v) for v in x))
        if isinstance(x, set):
            return ("set", tuple(sorted(repr(d(v)) for v in x)))
        if isinstance(x, np.ndarray):
            return ("arr", str(x.dtype), x.shape, tuple(d(v) for v in x.flatten().tolist()))
        if isinstance(x, sym.Expr):
            return ("sym", sym.srepr(sym.expand(x)))
        return (type(x).__name__, repr(x))
    return repr((p.name, p.version, d(p.target), d(p.programtype), d(p.operations), sorted(p.parameters), sorted(int(m) for m in p.modes)))


def main():
    job = json.load(open(sys.argv[1]))
    warnings.simplefilter("ignore")
    from . import absyn, progcmp, realrun
    import blackbird
    out = []
    for c in job["cases"]:
        rng = random.Random(c["seed"])
        rec = {}
        root = None
        try:
            if c.get("files"):
                from .checks import c07
                root = tempfile.mkdtemp(prefix="bbseed_")
                for f in c["files"]:
                    dd = os.path.join(root, *f["path"]["dirs"][1:])
                    os.makedirs(dd, exist_ok=True)
                    with open(os.path.join(dd, f["path"]["file"]), "w", encoding="utf-8") as fh:
                        fh.write(absyn.render(c07.with_inc_strings(f["s"], root), rng))
                c07.make_links(c.get("links"), root)
                text = absyn.render(c07.with_inc_strings(c["s"], root), rng)
                path = os.path.join(root, "w", "main.xbb")
                with open(path, "w", encoding="utf-8") as fh:
                    fh.write(text)
                try:
                    real = ("ok", blackbird.load(path))
                except BaseException as e:      # noqa: BLE001
                    real = ("raise", type(e).__name__, str(e.args[0]) if e.args else str(e))
                text = text.replace(root, "<root>")
            else:
                text = absyn.render(c["s"], rng)
                real = realrun.loads(text)
            rec["text"] = text
            from . import values
            values.EXTRA_ATOMS = dict(enumerate(c.get("atoms", [])))
            rec["why"] = progcmp.cmp_outcome(c["out"], real, sections=tuple(c.get("sections", ("meta", "ops", "modes", "params"))),
                                             strict_cls=False, num_kind=c.get("num_kind", True))
            if real[0] == "ok":
                rec["content"] = hashlib.sha1(digest_program(real[1]).encode()).hexdigest()
                try:
                    rec["dumps"] = blackbird.dumps(real[1])
                except BaseException as e:      # noqa: BLE001
                    rec["dumps"] = "dumps raised %s" % type(e).__name__
            else:
                rec["content"] = "raise " + real[1]
                rec["dumps"] = ""
        finally:
            if root:
                shutil.rmtree(root, ignore_errors=True)
        out.append(rec)
    json.dump(out, open(sys.argv[2], "w"))


if __name__ == "__main__":
    main()
