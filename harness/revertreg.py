"""Development tool (not a registered check): revert each `fix:` commit of /repo in a scratch worktree and run the quick
tier of the checks of the properties it repaired; every reverted fix must be reported as a violation again.
usage: python -m harness.revertreg [commit ...]        (default: every fixed entry of known_findings.json)
A reverse patch that no longer applies cleanly (later fixes touched the same lines) is applied with --3way; where that
conflicts too, a hand-made reverse patch /verif/seeded/reverts/<commit>.diff is used if present.
The table is written to /verif/seeded/REVERTS.json."""
import json, os, shutil, subprocess, sys, tempfile

VERIF = os.path.dirname(os.path.dirname(os.path.abspath(__file__)))
REPO = "/repo"
# further checks that observe a fix besides the property it is recorded under
ALSO = {"a508b0f": ["C09"], "2736c76": ["C09", "C19"], "1b4ca61": ["C19"], "ee6595c": ["C04"], "81c539e": ["C09"], "2022f49": ["C01", "C07"], "30e38fa": ["C15"], "20a2388": ["C17"]}


def sh(cmd, cwd, env=None, timeout=3600):
    e = dict(os.environ)
    e.update(env or {})
    p = subprocess.run(cmd, cwd=cwd, env=e, shell=True, stdout=subprocess.PIPE, stderr=subprocess.STDOUT, text=True, timeout=timeout)
    return p.returncode, p.stdout


def main():
    kf = json.load(open(os.path.join(VERIF, "known_findings.json")))["findings"]
    by_commit = {}
    for f in kf:
        if f["status"] == "fixed":
            by_commit.setdefault(f["commit"], set()).add(f["property"])
    commits = sys.argv[1:] or sorted(by_commit)
    path = os.path.join(VERIF, "seeded", "REVERTS.json")
    table = json.load(open(path))["results"] if (sys.argv[1:] and os.path.exists(path)) else {}
    base = tempfile.mkdtemp(prefix="bbrevert_")
    head = sh("git rev-parse --short HEAD", REPO)[1].strip()
    try:
        for c in commits:
            wt = os.path.join(base, c)
            sh("git worktree add --detach %s HEAD -f" % wt, REPO)
            try:
                manual = os.path.join(VERIF, "seeded", "reverts", c + ".diff")
                how = "git show %s | git apply -R" % c
                rc, o = sh("git show %s -- . | git apply -R" % c, wt)
                if rc != 0:
                    how = "git show %s | git apply -R --3way" % c
                    rc, o = sh("git reset -q --hard && git show %s -- . | git apply -R --3way && git reset -q" % c, wt)
                if rc != 0 and os.path.exists(manual):
                    how = "hand-made reverse patch seeded/reverts/%s.diff" % c
                    rc, o = sh("git reset -q --hard && git apply %s" % manual, wt)
                if rc != 0:
                    table[c] = {"error": "cannot be reverted on HEAD: " + o.strip()[-300:]}
                    print(c, table[c], flush=True)
                    continue
                rc, o = sh("/venv/bin/python -m pytest -q -p no:cacheprovider blackbird_python 2>&1 | tail -1", wt, {"PYTHONPATH": wt + "/blackbird_python"})
                res = {"how": how, "tests_with_revert": o.strip(), "checks": {}}
                for pid in sorted(by_commit.get(c, set()) | set(ALSO.get(c, []))):
                    out = os.path.join(base, "out_%s_%s" % (c, pid))
                    rc, o = sh("./check %s --tier quick" % pid, VERIF, {"VERIF_REPO": wt, "VERIF_OUT": out})
                    viol = [l for l in o.splitlines() if l.startswith("VIOLATION")]
                    res["checks"][pid] = {"exit": rc, "violations": len(viol), "detected": rc == 1 and len(viol) > 0}
                    shutil.rmtree(out, ignore_errors=True)
                table[c] = res
                print(c, res, flush=True)
            finally:
                sh("git worktree remove --force %s" % wt, REPO)
    finally:
        sh("git worktree prune", REPO)
        shutil.rmtree(base, ignore_errors=True)
    json.dump({"repo_head": head, "results": table}, open(path, "w"), indent=1, sort_keys=True)
    print("not detected by the property's own check:", [c for c, r in table.items() if "error" in r or not any(
        v["detected"] for p, v in r["checks"].items() if p in by_commit.get(c, set()))])


if __name__ == "__main__":
    main()
