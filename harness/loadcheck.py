"""Shared driver for the checks built on the script-builder model MC_Load: TLC explores the scripts,
checks the spec-level invariants and prints every finished load; the harness renders each script,
verifies the rendering against the real parse tree, loads it with the real code and compares."""
import json, random
from . import common, absyn, progcmp

INVARIANTS = ["OperationalIsDenotational", "LoopIsUnrolling", "ModesAreUnion", "LoopVarGone", "TablesEmptyAfterSuccess"]
PROPS = ["OpsAppendOnly", "DeferredNotExecuted"]


def cfg_text(N, metas, items, extra_consts="", invariants=INVARIANTS, props=PROPS, emit=True, fs="NoFS", clear="TRUE", minlen=0, prelude="<<>>", basedir="RootDir"):
    s = "CONSTANT N = %d\nCONSTANT MinLen = %d\nCONSTANT MetaMenu <- %s\nCONSTANT ItemMenu <- %s\nCONSTANT ClearTablesAtLoadStart = %s\nCONSTANT FS <- %s\n" % (
        N, minlen, metas, items, clear, fs)
    s += "CONSTANT BaseDir <- %s\n" % basedir
    if prelude == "<<>>":
        s += "CONSTANT Prelude <- EmptyPrelude\n"
    else:
        s += "CONSTANT Prelude <- %s\n" % prelude
    s += extra_consts + "INIT Init\nNEXT Next\n"
    s += "".join("INVARIANT %s\n" % i for i in invariants) + "".join("PROPERTY %s\n" % p for p in props)
    if emit:
        s += "CONSTRAINT Emit\n"
    return s


def explore(rep, module, N, metas="Metas", items="Items", simulate=None, label=None, timeout=3000, **kw):
    if simulate:
        kw.setdefault("minlen", simulate.get("minlen", max(0, N - 3)))
    cfg = cfg_text(N, metas, items, **kw)
    extra = None
    if simulate:
        extra = ["-depth", str(simulate.get("depth", 300)), "-seed", str(common.seed() + 12345)]
    r = common.run_tlc(module, cfg, simulate=("num=%d" % simulate["num"]) if simulate else None, extra=extra, timeout=timeout,
                       env={"X": "1"}, workers=16)
    common.require_ok(r, module)
    rep.add_tlc(r, label or ("%s N=%d%s" % (module, N, " (simulation)" if simulate else "")))
    if r.violated:
        raise common.MachineryError("%s: spec-level property %s violated: the specification contradicts itself\n%s" % (
            module, r.violated, r.counterexample()[:3000]))
    seen = {}
    for c in r.tagged("CASE"):
        seen.setdefault(json.dumps(c["s"], sort_keys=True), c)
    return list(seen.values())


def judge_load(case):
    """worker: render, self-check the rendering, load with the real code, compare"""
    from . import realrun
    s, out, sd = absyn.expand_atoms(case["s"]), case["out"], case["seed"]
    rng = random.Random(sd)
    text = absyn.render(s, rng, case.get("layout"))
    res = {"text": text}
    try:
        back = absyn.tree2abs(realrun.parse_tree(text), None)
        if back != s:
            return ("render", dict(res, reason="rendered text does not parse back to the abstract script", back=back))
    except BaseException as ex:     # noqa: BLE001
        return ("render", dict(res, reason="rendered text does not parse: %s %s" % (type(ex).__name__, ex)))
    if out["k"] == "unspec":
        return ("unspec", res)
    real = realrun.loads(text)
    res["observed"] = "raise %s: %s" % (real[1], real[2][:200]) if real[0] == "raise" else "program with %d operations" % len(real[1])
    why = progcmp.cmp_outcome(out, real, sections=tuple(case.get("sections", ("meta", "ops", "modes"))), kw_order=case.get("kw_order", False),
                              strict_cls=case.get("strict_cls", True))
    if why:
        return ("bad", dict(res, reason=why))
    return ("ok", res)


def replay_cases(rep, cases, seed, sections=("meta", "ops", "modes"), fingerprint=None, kw_order=False, judge=judge_load, layout=None,
                 strict_cls=True):
    from . import realrun
    for i, c in enumerate(cases):
        c["seed"] = seed * 7919 + i
        c["sections"] = list(sections)
        c["kw_order"] = kw_order
        c["strict_cls"] = strict_cls
        if layout:
            c["layout"] = layout
    res = realrun.pmap(judge, cases, chunk=max(4, min(200, len(cases) // 64)), min_items=64)
    cnt = {"ok": 0, "bad": 0, "unspec": 0, "render": 0}
    for c, (st, d) in zip(cases, res):
        cnt[st] = cnt.get(st, 0) + 1
        if st == "bad":
            fp = fingerprint(c, d) if fingerprint else None
            rep.violation("%s | script:\n%s" % (d["reason"], d["text"]), {"case": c, "text": d["text"], "reason": d["reason"],
                                                                          "observed": d.get("observed"), "fingerprint": fp})
        elif st == "render":
            raise common.MachineryError("renderer self-check failed: %s\n%s\nscript=%s\nback=%s" % (
                d["reason"], d["text"], json.dumps(c["s"])[:1500], json.dumps(d.get("back"))[:1500]))
    k = 0
    for c, (st, d) in zip(cases, res):
        if st == "ok" and k < 3 and len(c["s"]["body"]) >= 2:
            rep.sample({"script": d["text"], "spec_outcome": c["out"]["k"], "observed": d.get("observed")})
            k += 1
    for key, v in cnt.items():
        rep.cov.setdefault("status_counts", {})
        rep.cov["status_counts"][key] = rep.cov["status_counts"].get(key, 0) + v
    rep.cov["traces_validated_against_impl"] += cnt["ok"] + cnt["bad"]
    rep.cov["evaluations"] += len(cases)
    rep.cov["distinct_nontrivial"] += cnt["ok"] + cnt["bad"]
    return res
