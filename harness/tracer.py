"""Record the real listener's callbacks without source hooks: the ANTLR walker calls the callbacks
by name on the listener object, exitForloop replays its body through self.exitStatement and nested
includes instantiate BlackbirdListener by its module-level name, so wrapping the methods on the
class observes every action.  One event per callback, logged when it returns or raises."""
import functools
from contextlib import contextmanager

CALLBACKS = ["exitDeclarename", "exitVersion", "exitTarget", "exitDeclaretype", "exitInclude", "exitExpressionvar", "exitArrayvar",
             "exitStatement", "enterForloop", "exitForloop", "enterProgram", "exitProgram"]


PAUSED = False


@contextmanager
def recording():
    """context manager yielding the list that receives the events of every load inside it"""
    from blackbird import listener as L, auxiliary as A
    events = []
    stack = []            # live listeners, outermost first
    saved = {}

    def depth_of(obj):
        if not any(o is obj for o in stack):
            stack.append(obj)
        return 1 + next(i for i, o in enumerate(stack) if o is obj)

    def wrap(name):
        orig = getattr(L.BlackbirdListener, name)
        saved[name] = orig

        @functools.wraps(orig)
        def w(self, *a, **k):
            if PAUSED:          # loads of the hostile history (realrun.hostile_history) are not part of the recorded load
                return orig(self, *a, **k)
            d = depth_of(self)
            if name == "exitInclude":
                events.append(dict(ev="enterInclude", depth=d, nops=len(self._program._operations), in_for=bool(getattr(self, "_in_for", False)),
                                   vars=list(A._VAR.keys()), exc=""))
            exc = ""
            try:
                return orig(self, *a, **k)
            except BaseException as e:      # noqa: BLE001
                exc = type(e).__name__
                raise
            finally:
                events.append(dict(ev=name, depth=d, nops=len(self._program._operations), in_for=bool(getattr(self, "_in_for", False)),
                                   vars=list(A._VAR.keys()), exc=exc))
                if name == "exitProgram" or exc:
                    while stack and stack[-1] is not self:
                        stack.pop()
                    if stack and name == "exitProgram" and not exc:
                        stack.pop()
        setattr(L.BlackbirdListener, name, w)
    for n in CALLBACKS:
        wrap(n)
    try:
        yield events
    finally:
        for n, f in saved.items():
            setattr(L.BlackbirdListener, n, f)
