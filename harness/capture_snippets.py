"""Run the repository's own test-suite with antlr4.InputStream patched, to collect every script text it parses.
usage: python -m harness.capture_snippets <repo> <out.json>"""
import json, os, sys


def main():
    repo, out = sys.argv[1], sys.argv[2]
    sys.path.insert(0, os.path.join(repo, "blackbird_python"))
    import antlr4
    import pytest
    texts = []
    orig = antlr4.InputStream.__init__

    def init(self, data, *a, **k):
        if isinstance(data, str):
            texts.append(data)
        orig(self, data, *a, **k)
    antlr4.InputStream.__init__ = init
    devnull = open(os.devnull, "w")
    so, se = sys.stdout, sys.stderr
    sys.stdout = sys.stderr = devnull
    try:
        pytest.main(["-q", "-p", "no:cacheprovider", "-W", "ignore", os.path.join(repo, "blackbird_python", "blackbird", "tests")])
    finally:
        sys.stdout, sys.stderr = so, se
    uniq = sorted(set(texts))
    json.dump(uniq, open(out, "w"))
    print(len(uniq))


if __name__ == "__main__":
    main()
