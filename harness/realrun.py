"""Run the real blackbird package of the working tree and project its results."""
import os, sys, warnings, multiprocessing
from . import common

_rp = os.path.join(common.REPO, "blackbird_python")
if _rp not in sys.path:
    sys.path.insert(0, _rp)
import antlr4                                             # noqa: E402
import blackbird                                          # noqa: E402
from blackbird.blackbirdLexer import blackbirdLexer       # noqa: E402
from blackbird.blackbirdParser import blackbirdParser     # noqa: E402
from blackbird.error import BlackbirdErrorListener        # noqa: E402

warnings.simplefilter("ignore")


def parse_tree(text):
    lexer = blackbirdLexer(antlr4.InputStream(text))
    stream = antlr4.CommonTokenStream(lexer)
    parser = blackbirdParser(stream)
    parser.removeErrorListeners()
    parser.addErrorListener(BlackbirdErrorListener())
    return parser.start()


# A hostile load history (C12 says it must not matter): scripts that succeed or fail at every stage while using the names the
# menus use, with other types.  It is replayed in front of every load whose text has a checksum divisible by HOSTILE_EVERY, so a
# replay of a recorded case sees exactly the history it saw in the check.  The expected outcome never depends on it.
HOSTILE_EVERY = 4
HOSTILE = [
    # succeeds: list keywords, strings and booleans, names of the menus with other types
    'name h0\nversion 1.0\ntarget dev (shots=3, l=[1, 2])\nstr s = "t"\nbool b = True\ncomplex x = 1+2j\nint array A =\n    7, 8, 9\n'
    'MeasureFock(dark_counts=[0.1, 0.2], on=True, nm="t") | [0, 1]\nG(x, A[2], b, s) | 5\n',
    # a tdm script with p-arrays and parameters that fails at an undefined name (BlackbirdSyntaxError)
    'name h1\nversion 1.0\ntype tdm (temporal_modes=2)\nfloat array p0 =\n    1.5, 2.5\nfloat array p1 =\n    3.5, 4.5\nfloat array p2 =\n    0.5, 0.25\n'
    'int i = 7\nint n = 3\nint m = 2\nfloat f = 0.75\nfloat y = 9.5\nfloat alpha = 0.125\nfloat array M =\n    {b}, 2\nG(p0, p1, {a}, {p}, {alpha}) | 0\nG(undefined_name_h1) | 1\n',
    # fails inside a loop body, second iteration (IndexError), loop variable bound, deferred body present
    'name h2\nversion 1.0\ntype tdm\nfloat array p0 =\n    1.5, 2.5\nfloat array U =\n    1, 2\nfloat array W =\n    1, 2\n'
    'for int j in 0:4\n    G(U[j], {w}) | j\n',
    # fails with a ValueError (loop value of the wrong type) after p-arrays and parameters were seen
    'name h3\nversion 1.0\ntype tdm\nfloat array p0 =\n    1.5, 2.5\nfloat array p3 =\n    1.5, 2.5\nfloat v = {v}\nfor int k in [0, 1.5]\n    G(k, {c}) | k\n',
    # fails at the syntax stage, first token; and at a later token
    '*',
    'name h4\nversion 1.0\nVac | 0 1\n',
    'name h5\nversion 1.0\nfloat abc = "s" +\n',
]


def hostile_history(rot=0):
    from . import tracer
    rot %= len(HOSTILE)
    was, tracer.PAUSED = tracer.PAUSED, True
    try:
        for t in HOSTILE[rot:] + HOSTILE[:rot]:
            try:
                with warnings.catch_warnings():
                    warnings.simplefilter("ignore")
                    blackbird.loads(t)
            except BaseException as e:      # noqa: BLE001
                if isinstance(e, (KeyboardInterrupt, SystemExit)):
                    raise
    finally:
        tracer.PAUSED = was


def wants_hostile(text):
    """None, or the rotation of the hostile history to replay in front of this text"""
    import zlib
    c = zlib.crc32(text.encode("utf-8", "replace"))
    return c // HOSTILE_EVERY if (HOSTILE_EVERY > 0 and c % HOSTILE_EVERY == 0) else None


def loads(text):
    """-> ("ok", program) | ("raise", exception class name, message)"""
    rot = wants_hostile(text)
    if rot is not None:
        hostile_history(rot)
    try:
        with warnings.catch_warnings():
            warnings.simplefilter("ignore")
            return ("ok", blackbird.loads(text))
    except BaseException as e:      # noqa: BLE001  (NoTraceBack derives from Exception, but be total)
        if isinstance(e, (KeyboardInterrupt, SystemExit)):
            raise
        return ("raise", type(e).__name__, str(e.args[0]) if e.args else str(e))


def pmap(fn, items, procs=None, chunk=200, min_items=400):
    """parallel map in forked workers (each has the working tree's blackbird imported)"""
    procs = procs or min(16, os.cpu_count() or 1)
    if len(items) < min_items or procs == 1:
        return [fn(x) for x in items]
    ctx = multiprocessing.get_context("fork")
    with ctx.Pool(procs) as pool:
        return pool.map(fn, items, chunksize=chunk)
