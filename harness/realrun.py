"""Run the real blackbird package of the working tree and project its results."""
import os, sys, warnings, multiprocessing
from . import common

_rp = os.path.join(common.REPO, "blackbird_python")
if _rp not in sys.path:
    sys.path.insert(0, _rp)
import antlr4                                             # noqa: E402
import blackbird                                          # noqa: E402
from blackbird.blackbirdLexer import blackbirdLexer       # noqa: E402
from blackbird.blackbirdParser import blackbirdParser     # noqa: E402
from blackbird.error import BlackbirdErrorListener        # noqa: E402

warnings.simplefilter("ignore")


def parse_tree(text):
    lexer = blackbirdLexer(antlr4.InputStream(text))
    stream = antlr4.CommonTokenStream(lexer)
    parser = blackbirdParser(stream)
    parser.removeErrorListeners()
    parser.addErrorListener(BlackbirdErrorListener())
    return parser.start()


def loads(text):
    """-> ("ok", program) | ("raise", exception class name, message)"""
    try:
        with warnings.catch_warnings():
            warnings.simplefilter("ignore")
            return ("ok", blackbird.loads(text))
    except BaseException as e:      # noqa: BLE001  (NoTraceBack derives from Exception, but be total)
        if isinstance(e, (KeyboardInterrupt, SystemExit)):
            raise
        return ("raise", type(e).__name__, str(e.args[0]) if e.args else str(e))


def pmap(fn, items, procs=None, chunk=200, min_items=400):
    """parallel map in forked workers (each has the working tree's blackbird imported)"""
    procs = procs or min(16, os.cpu_count() or 1)
    if len(items) < min_items or procs == 1:
        return [fn(x) for x in items]
    ctx = multiprocessing.get_context("fork")
    with ctx.Pool(procs) as pool:
        return pool.map(fn, items, chunksize=chunk)
