"""helper (development only, never called by checks): append an entry to known_findings.json"""
import json, sys
p = '/verif/known_findings.json'


def add(prop, status, key, what, commit=None):
    d = json.load(open(p))
    e = {"property": prop, "status": status, "key": key, "what": what}
    if status == "fixed":
        e["commit"] = commit
        e["line"] = "fixed: property=%s %s %s" % (prop, commit, what)
    d["findings"] = [x for x in d["findings"] if x["key"] != key] + [e]
    json.dump(d, open(p, "w"), indent=1)


if __name__ == "__main__":
    add(*sys.argv[1:])
