"""Decode the serialized ATNs shipped in the working tree (Python sources, C++ sources, .interp
files), check that all copies are identical, and export them as TLA+ data for BBATN."""
import ast, os, re
from . import common


def _read(rel):
    with open(os.path.join(common.REPO, rel), encoding="utf-8") as fh:
        return fh.read()


def ints_from_python(rel):
    """The uint16 list of serializedATN() in a generated Python file, read from the source text
    (not by importing it), so that an edit of the file is seen exactly as written."""
    src = _read(rel)
    m = re.search(r"def serializedATN\(\):(.*?)return buf.getvalue\(\)", src, re.S)
    if not m:
        raise common.MachineryError("no serializedATN() in %s" % rel)
    s = ""
    for lit in re.findall(r"buf\.write\((\".*\")\)\s*$", m.group(1), re.M):
        s += ast.literal_eval(lit)
    return [ord(c) for c in s]


def ints_from_cpp(rel):
    src = _read(rel)
    vals = []
    segs = re.findall(r"static const uint16_t serializedATNSegment\d+\[\] = \{(.*?)\};", src, re.S)
    if not segs:
        raise common.MachineryError("no serializedATNSegment in %s" % rel)
    for seg in segs:
        vals += [int(x, 16) for x in re.findall(r"0x[0-9a-fA-F]+", seg)]
    return vals


def interp_sections(rel):
    src = _read(rel)
    sec = {}
    cur = None
    for line in src.splitlines():
        if re.match(r"^[a-z][a-zA-Z ]*:$", line):
            cur = line[:-1]
            sec[cur] = []
        elif cur is not None:
            sec[cur].append(line)
    return sec


def ints_from_interp(rel):
    sec = interp_sections(rel)
    body = "".join(sec["atn"]).strip()
    return [int(x) for x in body.strip("[]").split(",") if x.strip()]


def tokens_file(rel):
    d = {}
    for line in _read(rel).splitlines():
        if "=" in line:
            k, v = line.rsplit("=", 1)
            d[k] = int(v)
    return d


def py_list(rel, var):
    """A list literal assigned to `var` in a generated Python class body."""
    src = _read(rel)
    m = re.search(r"^\s*%s\s*=\s*(\[.*?\])\s*$" % re.escape(var), src, re.S | re.M)
    if not m:
        raise common.MachineryError("no %s in %s" % (var, rel))
    return ast.literal_eval(m.group(1))


def py_consts(rel):
    """NAME = <int> constants of a generated Python class (token types / rule indices)."""
    src = _read(rel)
    d = {}
    for m in re.finditer(r"^\s{4}([A-Za-z_][A-Za-z_0-9]*)\s*=\s*(-?\d+)\s*(?:#.*)?$", src, re.M):
        d[m.group(1)] = int(m.group(2))
    return d


def cpp_enum(rel, first):
    src = _read(rel)
    m = re.search(r"enum\s*\{\s*(%s\s*=.*?)\};" % first, src, re.S)
    if not m:
        raise common.MachineryError("no enum starting with %s in %s" % (first, rel))
    return {k: int(v) for k, v in re.findall(r"([A-Za-z_][A-Za-z_0-9]*)\s*=\s*(\d+)", m.group(1))}


def cpp_strvec(rel, var):
    src = _read(rel)
    m = re.search(r"%s\s*=\s*\{(.*?)\};" % re.escape(var), src, re.S)
    if not m:
        raise common.MachineryError("no %s in %s" % (var, rel))
    return [ast.literal_eval(x) for x in re.findall(r'"(?:[^"\\]|\\.)*"', m.group(1))]


def deserialize(ints):
    from antlr4.atn.ATNDeserializer import ATNDeserializer
    return ATNDeserializer().deserialize("".join(chr(i) for i in ints))


def lexer_tables(atn):
    """Successor tables of the lexer ATN over code points 0..127 and 128 (= any non-ASCII)."""
    from antlr4.atn.Transition import (RuleTransition, EpsilonTransition, ActionTransition, AtomTransition,
                                       NotSetTransition, SetTransition, WildcardTransition, RangeTransition)
    from antlr4.atn.ATNState import RuleStopState
    U = set(range(129))

    def expand(label):
        s = set()
        for iv in label.intervals:
            a, b = iv.start, iv.stop - 1
            for c in range(max(a, 0), min(b, 127) + 1):
                s.add(c)
            if b > 127:
                s.add(128)
        return s
    N = len(atn.states)
    eps = [set() for _ in range(N)]
    atom = [[] for _ in range(N)]
    rule = [set() for _ in range(N)]
    stops = {}
    for st in atn.states:
        if st is None:
            continue
        n = st.stateNumber
        if isinstance(st, RuleStopState):
            stops[n] = st.ruleIndex
            continue                      # returns are taken from the stack, not from the follow edges
        for t in st.transitions:
            if isinstance(t, RuleTransition):
                rule[n].add((t.target.stateNumber, t.followState.stateNumber))
            elif isinstance(t, (EpsilonTransition, ActionTransition)):
                eps[n].add(t.target.stateNumber)
            else:
                if isinstance(t, AtomTransition):
                    s = frozenset([t.label_ if t.label_ <= 127 else 128])
                elif isinstance(t, NotSetTransition):
                    s = frozenset(U - expand(t.label))
                elif isinstance(t, (SetTransition, RangeTransition)):
                    s = frozenset(expand(t.label))
                elif isinstance(t, WildcardTransition):
                    s = frozenset(U)
                else:
                    raise common.MachineryError("lexer ATN: transition %s" % type(t).__name__)
                atom[n].append((s, t.target.stateNumber))
    start = atn.modeToStartState[0].stateNumber
    return dict(N=N, eps=eps, atom=atom, rule=rule, stops=stops, start=start)


def char_classes(sets):
    sig = {}
    for c in range(129):
        sig.setdefault(tuple(c in s for s in sets), []).append(c)
    classes = list(sig.values())
    cls_of = {c: i for i, cl in enumerate(classes) for c in cl}
    return classes, cls_of


def _tset(s):
    return "{" + ",".join(str(x) for x in sorted(s)) + "}"


def lexer_module(tb, cls_of, nclasses, name="LexATNData"):
    out = ["---- MODULE %s ----" % name, "EXTENDS TLC, Integers",
           "\\* generated at check time from the shipped lexer artefacts -- do not edit",
           "NClasses == %d" % nclasses, "StartState == %d" % tb["start"],
           "EpsSucc == <<" + ",".join(_tset(e) for e in tb["eps"]) + ">>",
           "RuleSucc == <<" + ",".join("{" + ",".join("<<%d,%d>>" % r for r in sorted(rs)) + "}" for rs in tb["rule"]) + ">>",
           "AtomSucc == <<" + ",".join("{" + ",".join("<<%s,%d>>" % (_tset({cls_of[c] for c in s}), t) for s, t in a) + "}" for a in tb["atom"]) + ">>",
           "StopRule == <<" + ",".join(str(tb["stops"].get(i, -1)) for i in range(tb["N"])) + ">>",
           "===="]
    return "\n".join(out) + "\n"


def parser_tables(atn, eof):
    from antlr4.atn.Transition import (RuleTransition, EpsilonTransition, ActionTransition, AtomTransition,
                                       SetTransition, NotSetTransition, WildcardTransition, RangeTransition,
                                       PrecedencePredicateTransition, PredicateTransition)
    from antlr4.atn.ATNState import RuleStopState
    from antlr4.Token import Token

    def tok(x):
        return eof if x == Token.EOF else x
    N = len(atn.states)
    eps = [set() for _ in range(N)]
    atom = [[] for _ in range(N)]
    rule = [set() for _ in range(N)]
    stops = {}
    alltok = set(range(1, eof + 1))
    for st in atn.states:
        if st is None:
            continue
        n = st.stateNumber
        if isinstance(st, RuleStopState):
            stops[n] = st.ruleIndex
            continue
        for t in st.transitions:
            if isinstance(t, RuleTransition):
                rule[n].add((t.target.stateNumber, t.followState.stateNumber))
            elif isinstance(t, (EpsilonTransition, ActionTransition, PrecedencePredicateTransition, PredicateTransition)):
                eps[n].add(t.target.stateNumber)          # predicates choose a tree, not the language
            elif isinstance(t, AtomTransition):
                atom[n].append((frozenset([tok(t.label_)]), t.target.stateNumber))
            elif isinstance(t, (SetTransition, RangeTransition, NotSetTransition)):
                s = set()
                for iv in t.label.intervals:
                    for c in range(iv.start, iv.stop):
                        s.add(tok(c))
                if isinstance(t, NotSetTransition):
                    s = (alltok - {eof}) - s
                atom[n].append((frozenset(s), t.target.stateNumber))
            elif isinstance(t, WildcardTransition):
                atom[n].append((frozenset(alltok - {eof}), t.target.stateNumber))
            else:
                raise common.MachineryError("parser ATN: transition %s" % type(t).__name__)
    return dict(N=N, eps=eps, atom=atom, rule=rule, stops=stops, start=atn.ruleToStartState[0].stateNumber)


def parser_module(tb, name="ParATNData"):
    out = ["---- MODULE %s ----" % name, "EXTENDS TLC, Integers",
           "\\* generated at check time from the shipped parser artefacts -- do not edit",
           "NStates == %d" % tb["N"], "StartState == %d" % tb["start"],
           "EpsSucc == <<" + ",".join(_tset(e) for e in tb["eps"]) + ">>",
           "RuleSucc == <<" + ",".join("{" + ",".join("<<%d,%d>>" % r for r in sorted(rs)) + "}" for rs in tb["rule"]) + ">>",
           "AtomSucc == <<" + ",".join("{" + ",".join("<<%s,%d>>" % (_tset(s), t) for s, t in a) + "}" for a in tb["atom"]) + ">>",
           "StopRule == <<" + ",".join(str(tb["stops"].get(i, -1)) for i in range(tb["N"])) + ">>",
           "===="]
    return "\n".join(out) + "\n"
