"""Compare a real BlackbirdProgram (or value) with the program (value) the specification predicts.
Only observables a property names are compared; callers choose the sections."""
import math, zlib
from fractions import Fraction
import numpy as np
import sympy as sym
from . import values

SAMPLES = 3


def sample_env(names, j):
    """deterministic generic sample values for symbols (parameters by name, registers as qN)"""
    env = {}
    for n in sorted(names):
        h = zlib.crc32(("%s#%d" % (n, j)).encode()) % 10007
        env[n] = 0.3 + (h / 10007.0) * 1.4            # in (0.3, 1.7): positive, away from 0 and 1
    return env


def term_symbols(t, acc=None):
    acc = set() if acc is None else acc
    k = t["t"]
    if k == "par":
        acc.add(t["p"])
    elif k == "reg":
        acc.add("q%d" % t["n"])
    elif k == "bin":
        term_symbols(t["l"], acc)
        term_symbols(t["r"], acc)
    elif k in ("neg", "fn"):
        term_symbols(t["a"], acc)
    return acc


def canon_reg(name):
    """q01, q007 are spellings of the registers q1, q7 (REGREF is 'q' [0-9]+)"""
    import re
    m = re.fullmatch(r"q0*([0-9]+)", name)
    return "q" + m.group(1) if m else name


def cmp_sym(term, expr, rtol=1e-9):
    if isinstance(expr, (int, float, complex, np.number)) and not isinstance(expr, (bool, np.bool_)):
        expr = sym.sympify(complex(expr) if isinstance(expr, (complex, np.complexfloating)) else float(expr))   # a constant is an expression too
    if not isinstance(expr, sym.Expr):
        return "expected a symbolic expression, got %r" % (expr,)
    expr = expr.subs({s: sym.Symbol(canon_reg(str(s))) for s in expr.free_symbols}, simultaneous=True)
    names = term_symbols(term)
    free = {str(s) for s in expr.free_symbols}
    if free - names:
        return "expression mentions %s, specification only %s" % (sorted(free - names), sorted(names))
    for j in range(SAMPLES):
        env = sample_env(names, j)
        try:
            want, err = values.eval_term(term, env)
        except values.NotComparable:
            continue
        got = complex(expr.subs({sym.Symbol(k): v for k, v in env.items()}).evalf())
        if abs(got.imag) < 1e-300 and not isinstance(want, complex):
            got = got.real
        if abs(got - want) > rtol * abs(want) + 16 * err + 1e-12:
            return "symbolic value %r at %s, specification says %r" % (got, env, want)
    return None


def cmp_rrt(term, rrt, rtol=1e-9):
    names = term_symbols(term)
    if type(rrt).__name__ != "RegRefTransform":
        # a register that cancels identically (q1*(0+0), q0-q0) is outside the properties: accept a constant that equals the
        # expression at every sample assignment; anything else is a transform that was not delivered
        try:
            const = complex(rrt)
            vals = [values.eval_term(term, sample_env(names, j))[0] for j in range(SAMPLES)]
            if all(abs(complex(v) - const) <= 1e-9 * max(1.0, abs(const)) for v in vals):
                return None
        except (TypeError, ValueError, values.NotComparable):
            pass
        return "expected a RegRefTransform, got %r" % (rrt,)
    regs = sorted(int(n[1:]) for n in names if n.startswith("q") and n[1:].isdigit())
    if sorted(rrt.regrefs) != regs:
        missing = set(regs) - set(rrt.regrefs)
        cancels = bool(missing) and not (set(rrt.regrefs) - set(regs)) and len(set(rrt.regrefs)) == len(rrt.regrefs)
        if cancels:
            # a listed subset is acceptable only if the written expression does not depend on the missing registers at all
            # (they cancel identically, e.g. q0*B[0] + q1 with B[0] = 0): outside the properties
            try:
                for j in range(SAMPLES):
                    env = sample_env(names, j)
                    env2 = dict(env)
                    for m in missing:
                        env2["q%d" % m] = env["q%d" % m] * 1.7 + 0.9
                    a, b = values.eval_term(term, env)[0], values.eval_term(term, env2)[0]
                    if abs(complex(a) - complex(b)) > 1e-9 * max(1.0, abs(complex(a))):
                        cancels = False
            except values.NotComparable:
                cancels = False
        if not cancels:
            return "regrefs %s, the expression mentions registers %s" % (rrt.regrefs, regs)
    if any(not (n.startswith("q") and n[1:].isdigit()) for n in names):
        return None          # registers mixed with template parameters: outside the properties
    for j in range(SAMPLES):
        env = sample_env(names, j)
        try:
            want, err = values.eval_term(term, env)
        except values.NotComparable:
            continue
        try:
            got = rrt.func(*[env["q%d" % r] for r in rrt.regrefs])
            got = complex(got) if isinstance(got, (complex, np.complexfloating)) else float(got)
        except BaseException as e:      # noqa: BLE001
            return "the transform's function, called with values for its listed registers %s, does not give a number (%s: %s)" % (
                rrt.regrefs, type(e).__name__, str(e)[:120])
        if abs(got - want) > rtol * abs(want) + 16 * err + 1e-12:
            return "transform gives %r at %s in its listed order %s, specification says %r" % (got, env, rrt.regrefs, want)
    return None


def cmp_value(spec, real, sym_rtol=1e-9, num_kind=True, allow_hoisted=False):
    """None if the real value is what the specification predicts, else a reason"""
    k = spec["k"]
    if k in ("int", "float", "complex"):
        kr, x = values.project(real)
        if kr not in ("int", "float", "complex"):
            return "value %r is not a number (specification: %s)" % (real, k)
        if not num_kind:
            # numeric comparison only: an int 3, a float 3.0 and a complex 3+0j are the same value
            try:
                if spec["x"]:
                    want = complex(float(Fraction(*spec["re"])), float(Fraction(*spec["im"])))
                    err = abs(want) * values.U
                else:
                    want, err = values.eval_term(spec["term"])
                return None if values.close(complex(x), complex(want), err) else "value %r, specification says %r" % (x, want)
            except values.NotComparable:
                return None
        try:
            return values.compare_number(spec, real)
        except values.NotComparable:
            return None
    if k == "str":
        return None if (isinstance(real, str) and real == spec["s"]) else "value %r, specification says string %r" % (real, spec["s"])
    if k == "bool":
        return None if (isinstance(real, (bool, np.bool_)) and bool(real) == spec["b"]) else "value %r, specification says %r" % (real, spec["b"])
    if k == "pname":
        return None if (isinstance(real, str) and real == spec["s"]) else "value %r, specification says the array name %r" % (real, spec["s"])
    if k == "list":
        if not isinstance(real, list) or len(real) != len(spec["xs"]):
            return "value %r, specification says a list of %d" % (real, len(spec["xs"]))
        for a, b in zip(spec["xs"], real):
            w = cmp_value(a, b, sym_rtol, num_kind)
            if w:
                return "list element: " + w
        return None
    if k == "arr":
        if not isinstance(real, np.ndarray):
            return "value %r, specification says an array" % (real,)
        rows = spec["rows"]
        shape = (len(rows), len(rows[0]) if rows else 0)
        if real.shape != shape:
            return "array shape %s, specification says %s" % (real.shape, shape)
        has_sym = any(e["k"] == "sym" for r in rows for e in r)
        if not has_sym and num_kind:
            kind = {"i": "int", "f": "float", "c": "complex"}.get(real.dtype.kind)
            if kind != spec["ty"]:
                return "array dtype %s, specification says %s" % (real.dtype, spec["ty"])
        for r in range(shape[0]):
            for c in range(shape[1]):
                w = cmp_value(rows[r][c], real[r][c], sym_rtol, num_kind=num_kind and not has_sym)
                if w:
                    return "array element (%d,%d): %s" % (r, c, w)
        return None
    if k == "sym":
        return cmp_sym(spec["term"], real, sym_rtol)
    if k == "rrt":
        return cmp_rrt(spec["term"], real, sym_rtol)
    return "unknown specification value kind " + k


def opts_of(d):
    return d.get("options") or {}


def _terms(v, acc):
    k = v.get("k")
    if k in ("sym", "rrt"):
        acc.append(v["term"])
    elif k == "list":
        for x in v["xs"]:
            _terms(x, acc)
    elif k == "arr":
        for r in v["rows"]:
            for x in r:
                _terms(x, acc)


def params_cancel(spec, missing, ops_only=False):
    """True iff no value of the specification's program depends on the parameters `missing`: they occur only in sub-expressions
    that cancel identically (e.g. {w}**2 * (j*0)), which is outside the properties"""
    acc = []
    for o in spec["ops"]:
        for a in o["args"]:
            _terms(a, acc)
        for x in o["kw"]:
            _terms(x["v"], acc)
    for v in ([] if ops_only else spec.get("vars", [])):
        _terms(v["v"], acc)
    for t in acc:
        names = term_symbols(t)
        if not (names & missing):
            continue
        try:
            for j in range(SAMPLES):
                env = sample_env(names, j)
                env2 = dict(env)
                for m in names & missing:
                    env2[m] = env[m] * 1.9 + 0.7
                a, b = values.eval_term(t, env)[0], values.eval_term(t, env2)[0]
                if abs(complex(a) - complex(b)) > 1e-9 * max(1.0, abs(complex(a))):
                    return False
        except values.NotComparable:
            return False
    return True


def cmp_program(spec, prog, sections=("meta", "ops", "modes"), kw_order=False, sym_rtol=1e-9, num_kind=True, allow_hoisted=False):
    """spec: the 'prog' record printed by TLC; prog: real BlackbirdProgram. Returns None or a reason."""
    if "meta" in sections:
        if prog.name != spec["name"]:
            return "name %r, specification says %r" % (prog.name, spec["name"])
        if str(prog.version) != spec["version"]:
            return "version %r, specification says %r" % (prog.version, spec["version"])
        for what, real in (("target", prog.target), ("type", prog.programtype)):
            s = spec[what]
            want_name = s["name"] or None
            if real["name"] != want_name:
                return "%s name %r, specification says %r" % (what, real["name"], want_name)
            ro = opts_of(real)
            if list(ro.keys()) != [o["k"] for o in s["opts"]] and set(ro.keys()) != {o["k"] for o in s["opts"]}:
                return "%s options %s, specification says %s" % (what, list(ro.keys()), [o["k"] for o in s["opts"]])
            for o in s["opts"]:
                w = cmp_value(o["v"], ro[o["k"]], sym_rtol, num_kind)
                if w:
                    return "%s option %s: %s" % (what, o["k"], w)
    if "ops" in sections:
        ops = prog.operations
        if len(ops) != len(spec["ops"]):
            return "%d operations %s, specification says %d %s" % (len(ops), [o["op"] for o in ops], len(spec["ops"]), [o["op"] for o in spec["ops"]])
        if len(prog) != len(spec["ops"]):
            return "len(program) = %d, specification says %d" % (len(prog), len(spec["ops"]))
        for i, (s, o) in enumerate(zip(spec["ops"], ops)):
            if o["op"] != s["op"]:
                return "operation %d is %r, specification says %r" % (i, o["op"], s["op"])
            ms = o["modes"]
            if any(isinstance(m, (bool, np.bool_)) or not isinstance(m, (int, np.integer)) for m in ms) or [int(m) for m in ms] != list(s["modes"]):
                return "operation %d (%s) modes %r, specification says %s" % (i, s["op"], ms, s["modes"])
            args = o.get("args", [])
            kw = o.get("kwargs", {})
            if len(args) != len(s["args"]):
                return "operation %d (%s) has %d positional arguments, specification says %d" % (i, s["op"], len(args), len(s["args"]))
            for j, (a, b) in enumerate(zip(s["args"], args)):
                w = cmp_value(a, b, sym_rtol, num_kind)
                if w:
                    return "operation %d (%s) argument %d: %s" % (i, s["op"], j, w)
            keys = [x["k"] for x in s["kw"]]
            if (list(kw.keys()) != keys) if kw_order else (set(kw.keys()) != set(keys) or len(kw) != len(keys)):
                return "operation %d (%s) keyword arguments %s, specification says %s" % (i, s["op"], list(kw.keys()), keys)
            for x in s["kw"]:
                w = cmp_value(x["v"], kw[x["k"]], sym_rtol, num_kind)
                if w:
                    return "operation %d (%s) keyword %s: %s" % (i, s["op"], x["k"], w)
    if "modes" in sections:
        real = prog.modes
        if {int(m) for m in real} != set(spec["modes"]):
            return "program.modes %r, specification says %s" % (real, sorted(spec["modes"]))
    if "vars" in sections:
        rv = prog.variables
        names = [v["n"] for v in spec["vars"]]
        extra = set(rv.keys()) - set(names)
        if allow_hoisted:        # a reloaded serialisation also declares the hoisted by-value arrays A0, A1, ...
            import re
            extra = {n for n in extra if not re.fullmatch(r"A[0-9]+", n)}
        if extra or set(names) - set(rv.keys()):
            return "variables %s, specification says %s" % (sorted(rv.keys()), sorted(names))
        for v in spec["vars"]:
            w = cmp_value(v["v"], rv[v["n"]], sym_rtol, num_kind)
            if w:
                return "variable %s: %s" % (v["n"], w)
    if "params" in sections:
        real_p, spec_p = set(prog.parameters), set(spec["params"])
        if real_p != spec_p and not (real_p < spec_p and params_cancel(spec, spec_p - real_p)):
            return "free parameters %s, specification says %s" % (sorted(prog.parameters), sorted(set(spec["params"])))
        if real_p == spec_p and bool(prog.is_template()) != bool(spec["params"]):
            return "is_template() = %r with parameters %s" % (prog.is_template(), sorted(set(spec["params"])))
    return None


def cmp_outcome(spec_out, real_out, strict_cls=True, **kw):
    """spec_out: [k: ok|raise|unspec ...]; real_out: realrun.loads result."""
    if spec_out["k"] == "unspec":
        return None
    if spec_out["k"] == "raise":
        if real_out[0] != "raise":
            return "specification refuses the script (%s %s), the code returned a program" % (spec_out["cls"], spec_out["id"])
        if spec_out["cls"] == "BSE" and strict_cls:
            if real_out[1] != "BlackbirdSyntaxError":
                return "raised %s (%s), the property demands BlackbirdSyntaxError naming %r" % (real_out[1], real_out[2][:120], spec_out["id"])
        if spec_out["cls"] == "ValueError" and real_out[1] != "ValueError":
            return "raised %s, the property demands ValueError" % real_out[1]
        return None
    if real_out[0] == "raise":
        return "loading raised %s: %s" % (real_out[1], real_out[2][:200])
    return cmp_program(spec_out["prog"], real_out[1], **kw)
