"""Development tool (not a registered check): confirm a seeded change produced in a scratch worktree and try the checks on it.
usage: python -m harness.seedcheck <pid> [<check ids to run> ...]
The worktree /tmp/wt/<pid> has the change applied; deliverables are in /tmp/wt/out_<pid>/ ."""
import json, os, shutil, subprocess, sys

PY = "/venv/bin/python"


def sh(cmd, cwd, env=None, timeout=3000):
    e = dict(os.environ)
    e.update(env or {})
    p = subprocess.run(cmd, cwd=cwd, env=e, shell=True, stdout=subprocess.PIPE, stderr=subprocess.STDOUT, text=True, timeout=timeout)
    return p.returncode, p.stdout


def main():
    pid = sys.argv[1]
    checks = sys.argv[2:] or [pid]
    base = os.environ.get("SEED_BASE", "/tmp/wt")
    wt, out = base + "/" + pid, base + "/out_" + pid
    env = {"PYTHONPATH": wt + "/blackbird_python"}
    rec = {"property": pid}
    # the worktree is brought to exactly HEAD + patch.diff (git stash is shared between worktrees, so it is not used)
    head = sh("git -C /repo rev-parse HEAD", "/")[1].strip()
    sh("git checkout -q . && git checkout -q --detach %s && git apply %s/patch.diff" % (head, out), wt)
    rc, o = sh("git diff --stat | tail -1", wt)
    rec["diffstat"] = o.strip()
    rc, o = sh(PY + " -m pytest -q -p no:cacheprovider blackbird_python 2>&1 | tail -1", wt, env)
    rec["tests_with_change"] = o.strip()
    rc1, o1 = sh(PY + " " + out + "/demo.py", wt, env)
    rec["demo_with_change_exit"] = rc1
    sh("git apply -R %s/patch.diff" % out, wt)
    try:
        rc0, o0 = sh(PY + " " + out + "/demo.py", wt, env)
        rec["demo_without_change_exit"] = rc0
    finally:
        sh("git apply %s/patch.diff" % out, wt)
    rec["confirmed"] = (rc1 != 0 and rc0 == 0 and "467 passed" in rec["tests_with_change"] and "21 failed" in rec["tests_with_change"])
    res = {}
    for c in checks:
        scratch_out = base + "/vout_%s_%s" % (pid, c)
        shutil.rmtree(scratch_out, ignore_errors=True)
        rc, o = sh("./check %s --tier quick" % c, "/verif", {"VERIF_REPO": wt, "VERIF_OUT": scratch_out})
        viol = [l for l in o.splitlines() if l.startswith("VIOLATION")]
        first = ""
        lines = o.splitlines()
        for i, l in enumerate(lines):
            if l.startswith("VIOLATION") and i + 1 < len(lines):
                first = lines[i + 1].strip()[:300]
                break
        res[c] = {"exit": rc, "violations": len(viol), "first": first, "tail": lines[-1] if lines else ""}
    rec["checks"] = res
    print(json.dumps(rec, indent=1))
    json.dump(rec, open(out + "/seedcheck.json", "w"), indent=1)


if __name__ == "__main__":
    main()
