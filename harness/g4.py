"""Translate src/blackbird.g4 (the subset of ANTLR4 syntax it uses) into TLA+ data modules.

Nothing here knows the blackbird grammar: rule names, order, bodies, alternatives, fragments,
skip commands and associativity options are all read from the .g4 file of the working tree."""
import json, os, re
from . import common


def tokenize(src):
    src = re.sub(r'/\*.*?\*/', '', src, flags=re.S)
    out = []
    i = 0
    while i < len(src):
        c = src[i]
        if c.isspace():
            i += 1
            continue
        if src.startswith('//', i):
            j = src.find('\n', i)
            i = len(src) if j < 0 else j
            continue
        if c == "'":
            j = i + 1
            s = ''
            while src[j] != "'":
                if src[j] == '\\':
                    s += src[j:j + 2]
                    j += 2
                else:
                    s += src[j]
                    j += 1
            out.append(('LIT', s))
            i = j + 1
            continue
        if c == '[':
            j = i + 1
            s = ''
            while src[j] != ']':
                if src[j] == '\\':
                    s += src[j:j + 2]
                    j += 2
                else:
                    s += src[j]
                    j += 1
            out.append(('SET', s))
            i = j + 1
            continue
        if c == '<':
            j = src.find('>', i)
            out.append(('OPT', src[i + 1:j]))
            i = j + 1
            continue
        m = re.match(r'[A-Za-z_][A-Za-z0-9_]*', src[i:])
        if m:
            out.append(('ID', m.group(0)))
            i += len(m.group(0))
            continue
        if src.startswith('->', i):
            out.append(('ARROW', '->'))
            i += 2
            continue
        if src.startswith('+=', i):
            out.append(('PLUSEQ', '+='))
            i += 2
            continue
        out.append(('P', c))
        i += 1
    return out


_ESC = {'n': 10, 'r': 13, 't': 9, '\\': 92, "'": 39, ']': 93, '-': 45, '"': 34}


def unesc(s):
    res = []
    i = 0
    while i < len(s):
        if s[i] == '\\':
            n = s[i + 1]
            i += 2
            res.append(_ESC.get(n, ord(n)))
        else:
            res.append(ord(s[i]))
            i += 1
    return res


def s_set(body):
    items = []
    k = 0
    while k < len(body):
        if body[k] == '\\':
            items.append((unesc(body[k:k + 2])[0], True))
            k += 2
        else:
            items.append((ord(body[k]), False))
            k += 1
    out = set()
    k = 0
    while k < len(items):
        if k + 2 < len(items) and items[k + 1] == (45, False):
            for c in range(items[k][0], items[k + 2][0] + 1):
                out.add(c)
            k += 3
        else:
            out.add(items[k][0])
            k += 1
    return sorted(out)


class P:
    def __init__(s, toks):
        s.t = toks
        s.i = 0

    def peek(s, k=0):
        return s.t[s.i + k] if s.i + k < len(s.t) else ('EOF', '')

    def eat(s, kind=None, val=None):
        tk = s.peek()
        if kind and tk[0] != kind or val is not None and tk[1] != val:
            raise common.MachineryError("g4 parse at %d: %r expected %r %r" % (s.i, tk, kind, val))
        s.i += 1
        return tk

    def grammar(s):
        s.eat('ID', 'grammar')
        s.eat('ID')
        s.eat('P', ';')
        rules = []
        while s.peek()[0] != 'EOF':
            frag = False
            if s.peek() == ('ID', 'fragment'):
                s.eat()
                frag = True
            name = s.eat('ID')[1]
            s.eat('P', ':')
            alts = s.altlist()
            cmd = None
            if s.peek()[0] == 'ARROW':
                s.eat()
                cmd = s.eat('ID')[1]
            s.eat('P', ';')
            rules.append(dict(name=name, frag=frag, alts=alts, cmd=cmd))
        return rules

    def altlist(s):
        alts = [s.alt()]
        while s.peek() == ('P', '|'):
            s.eat()
            alts.append(s.alt())
        return alts

    def alt(s):
        assoc = None
        elems = []
        label = None
        if s.peek()[0] == 'OPT':
            assoc = s.eat()[1]
        while True:
            tk = s.peek()
            if tk in (('P', '|'), ('P', ';'), ('P', ')')) or tk[0] in ('ARROW', 'EOF'):
                break
            if tk == ('P', '#'):
                s.eat()
                label = s.eat('ID')[1]
                continue
            elems.append(s.elem())
        return dict(seq=elems, assoc=assoc, label=label)

    def elem(s):
        tk = s.peek()
        if tk[0] == 'ID' and s.peek(1)[0] == 'PLUSEQ':
            s.eat()
            s.eat()
        elif tk[0] == 'ID' and s.peek(1) == ('P', '='):
            s.eat()
            s.eat()
        tk = s.peek()
        if tk == ('P', '('):
            s.eat()
            a = s.altlist()
            s.eat('P', ')')
            e = dict(t='group', alts=a)
        elif tk == ('P', '~'):
            s.eat()
            st = s.eat('SET')[1]
            e = dict(t='notset', set=s_set(st))
        elif tk[0] == 'LIT':
            s.eat()
            e = dict(t='lit', cps=unesc(tk[1]))
        elif tk[0] == 'SET':
            s.eat()
            e = dict(t='set', set=s_set(tk[1]))
        elif tk == ('P', '.'):
            s.eat()
            e = dict(t='any')
        elif tk[0] == 'ID':
            s.eat()
            e = dict(t='ref', name=tk[1])
        else:
            raise common.MachineryError("g4 parse: unexpected %r" % (tk,))
        while s.peek() in (('P', '?'), ('P', '*'), ('P', '+')):
            e = dict(t={'?': 'opt', '*': 'star', '+': 'plus'}[s.eat()[1]], a=e)
        return e


class Grammar:
    """The grammar of the working tree, with numbering as ANTLR assigns it."""

    def __init__(self, path=None):
        path = path or os.path.join(common.REPO, "src", "blackbird.g4")
        self.path = path
        with open(path) as fh:
            self.rules = P(tokenize(fh.read())).grammar()
        self.prules = [r for r in self.rules if r['name'][0].islower()]
        self.lrules = [r for r in self.rules if r['name'][0].isupper()]
        self.toknum = {}
        n = 0
        for r in self.lrules:
            if not r['frag']:
                n += 1
                self.toknum[r['name']] = n
        self.ntok = n
        self.EOF = n + 1                      # EOF is given the number after the last token type
        self.toknum['EOF'] = self.EOF
        self.tokname = {v: k for k, v in self.toknum.items()}
        self.ridx = {r['name']: i + 1 for i, r in enumerate(self.prules)}
        self.lidx = {r['name']: i for i, r in enumerate(self.lrules)}   # 0-based, as in the lexer ATN
        self.skipped = {self.toknum[r['name']] for r in self.lrules if r['cmd'] == 'skip'}

    # ---- parser rules -> BBRegex records over tokens and rule references
    def parser_module(self, name="G4Data"):
        EPS = '[t |-> "eps"]'

        def seq(xs):
            xs = [x for x in xs if x != EPS]
            if not xs:
                return EPS
            out = xs[-1]
            for x in reversed(xs[:-1]):
                out = '[t |-> "seq", a |-> %s, b |-> %s]' % (x, out)
            return out

        def alt(xs):
            out = xs[-1]
            for x in reversed(xs[:-1]):
                out = '[t |-> "alt", a |-> %s, b |-> %s]' % (x, out)
            return out

        def star(x):
            return '[t |-> "star", a |-> %s]' % x

        def elem(e):
            t = e['t']
            if t == 'ref':
                nm = e['name']
                if nm in self.toknum:
                    return '[t |-> "tok", n |-> %d]' % self.toknum[nm]
                if nm not in self.ridx:
                    raise common.MachineryError("g4: unknown rule %s" % nm)
                return '[t |-> "ref", n |-> %d]' % self.ridx[nm]
            if t == 'lit':
                # implicit token: must be the literal of a lexer rule
                for r in self.lrules:
                    if len(r['alts']) == 1 and r['alts'][0]['seq'] == [e] and not r['frag']:
                        return '[t |-> "tok", n |-> %d]' % self.toknum[r['name']]
                raise common.MachineryError("g4: literal without lexer rule")
            if t == 'group':
                return alt([seq([elem(x) for x in a['seq']]) for a in e['alts']])
            if t == 'opt':
                return alt([elem(e['a']), EPS])
            if t == 'star':
                return star(elem(e['a']))
            if t == 'plus':
                x = elem(e['a'])
                return seq([x, star(x)])
            raise common.MachineryError("g4: element %s in parser rule" % t)

        def body(r):
            nm = r['name']

            def isleft(a):
                return a['seq'] and a['seq'][0] == {'t': 'ref', 'name': nm}
            if any(isleft(a) for a in r['alts']):
                # ANTLR's rewrite of direct left recursion: primary (suffix)*
                prim = [seq([elem(x) for x in a['seq']]) for a in r['alts'] if not isleft(a)]
                suff = [seq([elem(x) for x in a['seq'][1:]]) for a in r['alts'] if isleft(a)]
                return seq([alt(prim), star(alt(suff))])
            return alt([seq([elem(x) for x in a['seq']]) for a in r['alts']])

        out = ["---- MODULE %s ----" % name, "EXTENDS TLC, Integers",
               "\\* generated at check time from %s -- do not edit" % self.path,
               "Body == <<\n  " + ",\n  ".join(body(r) for r in self.prules) + "\n>>",
               "RuleNames == <<" + ",".join('"%s"' % r['name'] for r in self.prules) + ">>",
               "TokNames == <<" + ",".join('"%s"' % self.tokname[i] for i in range(1, self.EOF + 1)) + ">>",
               "NTok == %d" % self.EOF, "EOFTok == %d" % self.EOF,
               "Skipped == {" + ",".join(str(x) for x in sorted(self.skipped)) + "}",
               "===="]
        return "\n".join(out) + "\n"

    # ---- character sets used by the lexer rules
    def char_sets(self):
        U = set(range(129))
        res = []

        def walk(e):
            t = e['t']
            if t == 'lit':
                for c in e['cps']:
                    res.append(frozenset([min(c, 128)]))
            elif t == 'set':
                res.append(frozenset(min(c, 128) for c in e['set']))
            elif t == 'notset':
                res.append(frozenset(U - set(e['set'])))
            elif t == 'any':
                res.append(frozenset(U))
            elif t == 'group':
                for a in e['alts']:
                    for x in a['seq']:
                        walk(x)
            elif t in ('opt', 'star', 'plus'):
                walk(e['a'])
        for r in self.lrules:
            for a in r['alts']:
                for x in a['seq']:
                    walk(x)
        return res

    def lexer_module(self, cls_of, name="LexG4Data"):
        """Lexer rules as regular expressions over the character classes `cls_of` (code point -> class)."""
        U = set(range(129))
        EPS = '[t |-> "eps"]'

        def tset(s):
            return "{" + ",".join(str(x) for x in sorted(s)) + "}"

        def cset(s):
            return tset({cls_of[c] for c in s})

        def seq(xs):
            xs = [x for x in xs if x != EPS]
            if not xs:
                return EPS
            o = xs[-1]
            for x in reversed(xs[:-1]):
                o = '[t |-> "seq", a |-> %s, b |-> %s]' % (x, o)
            return o

        def alt(xs):
            o = xs[-1]
            for x in reversed(xs[:-1]):
                o = '[t |-> "alt", a |-> %s, b |-> %s]' % (x, o)
            return o

        def cs(s):
            return '[t |-> "cs", s |-> %s]' % cset(s)

        def elem(e):
            t = e['t']
            if t == 'lit':
                return seq([cs({min(c, 128)}) for c in e['cps']])
            if t == 'set':
                return cs({min(c, 128) for c in e['set']})
            if t == 'notset':
                return cs(U - set(e['set']))
            if t == 'any':
                return cs(U)
            if t == 'ref':
                return '[t |-> "ref", n |-> %d]' % (self.lidx[e['name']] + 1)
            if t == 'group':
                return alt([seq([elem(x) for x in a['seq']]) for a in e['alts']])
            if t == 'opt':
                return alt([elem(e['a']), EPS])
            if t == 'star':
                return '[t |-> "star", a |-> %s]' % elem(e['a'])
            if t == 'plus':
                x = elem(e['a'])
                return seq([x, '[t |-> "star", a |-> %s]' % x])
            raise common.MachineryError("g4: element %s in lexer rule" % t)

        # token type of each lexer rule (0 for fragments)
        ttype = [0 if r['frag'] else self.toknum[r['name']] for r in self.lrules]
        out = ["---- MODULE %s ----" % name, "EXTENDS TLC, Integers",
               "\\* generated at check time from %s -- do not edit" % self.path,
               "LBody == <<\n  " + ",\n  ".join(
                   alt([seq([elem(x) for x in a['seq']]) for a in r['alts']]) for r in self.lrules) + "\n>>",
               "IsFragment == <<" + ",".join("TRUE" if r['frag'] else "FALSE" for r in self.lrules) + ">>",
               "IsSkip == <<" + ",".join("TRUE" if r['cmd'] == 'skip' else "FALSE" for r in self.lrules) + ">>",
               "TokType == <<" + ",".join(str(x) for x in ttype) + ">>",
               "LexRuleNames == <<" + ",".join('"%s"' % r['name'] for r in self.lrules) + ">>",
               "===="]
        return "\n".join(out) + "\n"
