"""Writes /verif/MANIFEST.json from the table below (kept valid at all times)."""
import json, os, sys
HERE = os.path.dirname(os.path.dirname(os.path.abspath(__file__)))

CLAIMED = {
    "C14": dict(
        text="TLC decides language equivalence between the shipped automata and blackbird.g4: complete for the lexer "
             "(finite product of the exported lexer ATN with the partial-derivative automaton of the .g4 lexer rules, all strings), "
             "up to a rule-nesting depth for the parser (product with the .g4-derived pushdown machine, token strings of any length); "
             "all artefact copies (Python, C++, .interp, .tokens) are decoded and compared; the generated Python lexer's token streams are "
             "validated by the BBLexer machine and the generated Python parser's verdicts are compared with the grammar machine on every "
             "viable prefix x token type TLC enumerates.",
        note="Trusted: TLC, the ANTLR Python runtime's ATN deserializer, harness/g4.py (reader for the ANTLR syntax subset the grammar uses). "
             "C++ is covered at the automaton/artefact level only (no ANTLR C++ runtime here). Parser equivalence is bounded by nesting depth "
             "(quick 6, thorough 8).",
        technique="TLC product-automaton exploration (ATN x grammar) + trace validation of real lexer token streams + spec-generated parser cases",
        design="7/C14"),
}

CLAIMED["C10"] = dict(
    text="The grammar machine BBGrammar (built from blackbird.g4) decides for every token string whether it is a sentence and which token is "
         "the first that makes it ungrammatical (FirstBad). TLC enumerates every viable prefix of the grammar's subset automaton up to a length "
         "bound, from the start symbol and from 17 rule contexts, and the harness extends each by every token type; plus single-token mutants of whole scripts and token soups judged by TLC in "
         "batch. Every case is run through the real loads(): sentence <=> the tree walker is entered; otherwise BlackbirdSyntaxError exactly, "
         "with a 1-based line:column that is the start of a token not earlier than FirstBad.",
    note="Trusted: TLC; the text->token step is the real lexer (its equivalence with the grammar is C14's subject; texts that do not lex back "
         "to the intended token types are dropped). Bounded: prefixes up to 11 (quick) / 13 (thorough) tokens, random single-token mutants.",
    technique="TLC grammar-machine oracle (viable-prefix / FirstBad) replayed into the real parser and error listener",
    design="7/C10")

CLAIMED["C03"] = dict(
    text="TLC enumerates every expression tree that is directly writable under the property's binding table (brackets > sign > ** right > * / > + -) "
         "with up to 2 operator nodes over literals of every kind, declared scalars and array elements, evaluates each with the BBEval "
         "specification (exact rational arithmetic, kind rules checked as invariants) and prints tree + value. The harness renders each tree with "
         "random lexical forms, checks that the real parse tree equals the enumerated tree, loads it with the real code and compares kind and value.",
    note="Trusted: TLC; ulp-level accuracy of NumPy's elementary functions (the harness evaluates the spec's closed term with libm); tolerance "
         "1e-12 relative plus a forward error bound. Bounded: <= 2 operators exhaustively (3 functions quick / all 15 thorough).",
    technique="TLC-enumerated expression trees with spec-computed values replayed into the real evaluator",
    design="7/C03")

CLAIMED["C02"] = dict(
    text="BBLoad is a TLA+ machine with one action per listener callback and the same process-wide tables; TLC builds scripts item by item while "
         "the machine walks them (every script over a 20-item menu up to N items, random walks beyond) and checks in every final state that the "
         "operational outcome equals the declarative fold BBDenote (one operation per executed statement in order, modes, arguments, metadata), that "
         "modes is the union, and (action properties) that operations are append-only and deferred loop bodies are not executed while walking. Every "
         "finished load is rendered, loaded by the real code and compared field by field with the specification's program. The repository's examples "
         "and the script texts of its own tests are loaded with the listener's callbacks recorded; Trace_Load.tla is the oracle for their programs and "
         "validates every recorded trace against the listener machine (corrupted traces must be rejected).",
    note="Trusted: TLC; harness/absyn.render (self-checked per case against the real parse tree); values compared by kind and value. Bounded menus.",
    technique="TLC script-builder model of the listener machine (operational = denotational) + spec-generated scripts replayed into the real loader",
    design="7/C02")
CLAIMED["C06"] = dict(
    text="On the same listener machine TLC checks Load(s) = Load(Unroll(s)) for every loop header x body in the menu (int/float ranges over 0..3 with "
         "and without step incl. empty ranges; bracketed/parenthesised/bare lists of int, float, bool, str values and expressions, also of the wrong "
         "type), that the loop variable is gone afterwards, and that deferred bodies are not executed during the walk. Each script is executed by the "
         "real code as written AND textually unrolled, and both are compared with the specification.",
    note="Trusted: TLC; renderer (self-checked). Loops whose values cannot be written as literals are compared with the specification only.",
    technique="TLC listener-machine model (loop = textual unrolling as a spec equality) + replay of loop and unrolled scripts into the real loader",
    design="7/C06")

CLAIMED["C05"] = dict(
    text="The declaration actions of the listener machine (ExitExpressionvar / ExitArrayvar) state the property: declared kind, element (r, c) = c-th "
         "entry of the r-th written row, declared dtype and shape, ragged rows and contradicting shapes refused, A[k] row-major. TLC enumerates every "
         "array with 1..3 rows of 1..3 entries (all ragged combinations), 5 bare-parameter patterns, 5 shape forms, arrays made of two distinct template parameters only after earlier uses of those parameters, scalars of every type and readers "
         "A[k]; each script is loaded by the real code and program.variables (kind, dtype, shape, every element) and the read arguments are compared.",
    note="Trusted: TLC, renderer (self-checked). Out-of-range/negative indices and lossy conversions (int x = 2.7) are outside the property.",
    technique="TLC-enumerated declarations on the listener-machine model replayed into the real loader",
    design="7/C05")

CLAIMED["C11"] = dict(
    text="On the listener-machine model TLC appends exactly one faulty item (51 faults: undefined name in 17 syntactic slots, reserved declaration "
         "names, non-integer modes, literal and computed complex values into int/float scalars and arrays, loop values of the wrong type) to every "
         "valid prefix and checks that the specification itself refuses each (invariant FaultRefused, operational = denotational). Each script is "
         "loaded by the real code: it must raise; for undefined/reserved names a BlackbirdSyntaxError whose message contains the identifier and the "
         "line and column (0- or 1-based) of its token.",
    note="Trusted: TLC, renderer (self-checked). Include-call faults (mode count, keywords) are exercised by the C07 model.",
    technique="TLC fault-injection on the listener-machine model replayed into the real loader",
    design="7/C11")

CLAIMED["C12"] = dict(
    text="The listener machine keeps the implementation's two process-wide tables as state that persists between loads. TLC explores every history "
         "of up to K loads over 19 scripts (valid, template, tdm, failing at each stage incl. inside loops/includes/metadata, scripts whose options "
         "mention names, a nested include), with the included files edited or not between two loads (file-system epochs), and checks Independent: every outcome equals the outcome from a pristine process; a teeth run with the clearing switched "
         "off must find the counterexample. Each history is replayed in a freshly forked interpreter with real files; every outcome is compared with "
         "the specification's and the returned programs must share no mutable object. Random walks of the same model give histories of 5 (thorough 7) loads. "
         "In every OTHER check the harness replays a hostile load history (successful and failing loads at every stage, using the menus' names with other types, tdm p-arrays and parameters) in front of every fourth load, the expected outcome staying the specification's.",
    note="Trusted: TLC, renderer. Histories of length 2 (quick) / 3 (thorough) exhaustively over the menu, 5 / 7 by simulation.",
    technique="TLC exploration of load histories on the listener-machine model with persistent tables + replay of each history in a fresh process",
    design="7/C12")

CLAIMED["C04"] = dict(
    text="BBTemplate defines textual substitution Subst and the written parameter set; on the listener-machine builder model TLC checks for every "
         "template script in the bound and two exact environments that Instantiate(Load(T), env) and Load(Subst(T, env)) have the same operations and "
         "variables, that the reported parameters are exactly those written (whole arrays expanded per element), template iff non-empty, an instance "
         "has none, and a missing value is a ValueError. The harness runs both sides on the real code (call with the values; load of the rendered "
         "substituted text), compares both with the specification, tries every missing value, and checks the template is unchanged by the calls.",
    note="Trusted: TLC, renderer. Instantiated values are compared numerically (SymPy may simplify the stored expression, so int/float kind and array "
         "dtype of instances are not compared). Redeclared variables, parameters in list keywords/modes/metadata are outside the property.",
    technique="TLC spec equality Instantiate o Load = Load o Subst on the listener-machine model + both sides replayed into the real code",
    design="7/C04")

CLAIMED["C01"] = dict(
    text="BBSerialize specifies what serialisation must produce (metadata options, hoisted array declarations, tdm block, one statement per operation, "
         "braces around parameters). On the builder model TLC checks for every loaded program RoundTrip (Load(Serialize(p)) has the same metadata, "
         "parameters and operations), Stationary (the serialisation of the reloaded program is the same script, which closes the induction over "
         "generations) and SecondGeneration. The harness runs the real dumps/loads chain for 4 (thorough 8) generations on every script and compares "
         "each generation with the specification's program (keyword order included) and exactly with the first program's numbers/strings/lists/arrays.",
    note="Trusted: TLC, renderer. Out of scope: parameters occurring in no operation, array arguments that still contain parameters (variables are not "
         "serialised); empty list keywords are dropped by the loader (pinned by the repository's tests).",
    technique="TLC round-trip and stationarity on the Load/Serialize specification + real dumps/loads generations compared with the spec",
    design="7/C01")

CLAIMED["C15"] = dict(
    text="The listener machine registers p<digits> arrays under type tdm and evaluates such a name to the name; BBSerialize writes the tdm variable "
         "block and leaves the references bare. TLC checks on every tdm script in the bound: arguments referring to p-arrays are delivered by name "
         "and the data stay in the variables, other variables by value, by-value delivery outside tdm, p-names never among the parameters, template "
         "iff {} parameters, and the round trip preserves operations and every variable. The real loader, parameters/is_template, variables and two "
         "dumps/loads generations are compared with the specification; for templates an instance is made, its arrays are changed in place, and the template and a later instance must still hold the declared data.",
    note="Trusted: TLC, renderer. Menu of 13 items, 2 tdm metadata variants + non-tdm control.",
    technique="TLC invariants on the listener-machine/serialiser specification for tdm scripts + replay into real load/dumps",
    design="7/C15")

CLAIMED["C09"] = dict(
    text="TLC enumerates abstract programs directly (every supported value kind incl. opaque atoms -0.0, 5e-324, 1e+-300, 2^62, negative real/imaginary "
         "parts, 18 arrays up to 3x3, lists, SymPy terms; positional, keyword and option position; tdm programs with declared p-arrays of one to three rows passed by name next to arrays passed by value) and checks Load(Serialize(p)) = p on the "
         "specification. The harness builds each program through the real API twice (Python scalars and 64-bit NumPy scalars), calls dumps, requires "
         "loads to accept the text, and compares the reloaded program with p structurally and exactly (arrays: shape, dtype kind, every element).",
    note="Trusted: TLC. Programs are assembled the way the repository's tests do. Keyword/option names that are Blackbird keywords are outside the property.",
    technique="TLC-enumerated abstract programs (round trip on the Serialize/Load specification) built through the real API and re-loaded",
    design="7/C09")

CLAIMED["C07"] = dict(
    text="The listener machine has a frame stack: an include line pushes a nested listener frame on the file resolved against the including file's "
         "directory, its completion registers the program (and its own includes) by name, and a statement naming a registered program expands to its "
         "operations. TLC explores 11 include layouts (same directory, sub-directory, sibling via '..', absolute, repeated and equally written include "
         "lines, nesting, a directory that is a symbolic link) x call sequences over a 13-file tree and evaluates in every final state "
         "Load(main, fs) = Load(Inline(main)) (callee modes in increasing order, parameters bound - also to measured registers -, every call a fresh "
         "copy) and that ill-formed calls are refused (both printed with the case, required TRUE), and checks that the registry equals the transitive "
         "closure of includes. Each case is materialised in a scratch tree and loaded from 3 working directories (relative/absolute load path) and "
         "the inlined text is loaded too; plus random include trees (libraries in three directories, libraries calling libraries) with Trace_Load "
         "as oracle and validator of the recorded listener trace; all compared with the specification.",
    note="Trusted: TLC, renderer. Callee programs without measured-register arguments of their own; nesting depth 2, up to 2 (thorough 3) items per main script.",
    technique="TLC listener-machine model with include frames (include = inlining as a spec equality) + file-system replay under several working directories",
    design="7/C07")

CLAIMED["C16"] = dict(
    text="BBGraph defines wires (modes and measured registers), consecutive-on-wire edges, reachability and chains. TLC enumerates every program of up "
         "to 3 operations over 3 wires (thorough also 4 over 2) from a 41-operation menu (incl. template parameters) and proves on the model: edges point forward, j is reachable "
         "from i iff an increasing chain of operations successively shares a wire, every topological order keeps the order on every wire. Each program "
         "is built through the API and to_DiGraph's node set and labels, edge direction, acyclicity, REACHABILITY relation (not the edge list) and "
         "topological orders are compared with the specification, under several object histories (second conversion, instance of an already "
         "converted template, operation list reversed in place: expected graph = TLC's for the reversed sequence).",
    note="Trusted: TLC, networkx (descendants, topological sorts). Exhaustive within the stated bound.",
    technique="TLC exhaustive enumeration of programs with the graph specification + comparison of to_DiGraph's reachability relation",
    design="7/C16")
CLAIMED["C17"] = dict(
    text="BBMatch defines matching declaratively (same labelled operations with the same order on every mode; affine arguments solved per parameter, "
         "solutions must agree). TLC checks for 5 hand-written templates with 2 rational environments, all 131 five-operation templates over {R|0, R|1, BS|[0,1]} with at "
         "least two two-mode gates, and EVERY reordering of the instance that keeps per-mode order "
         "that Match returns the environment, and that every single structural edit is rejected. The harness replays each case on the real "
         "match_template (plus random decimal environments, version/target edits; the instance built through the API, by calling the template, and LOADED from its serialised script after a hostile history of failing loads) and compares results / TemplateError.",
    note="Trusted: TLC, SymPy's solve. Decimal environments are harness-chosen; the spec statement is generic in the values.",
    technique="TLC check of Match o Permute o Instantiate = id on the matching specification + replay into the real matcher",
    design="7/C17")

CLAIMED["C13"] = dict(
    text="BBObjects models programs as objects over a heap of mutable cells (operation dicts, argument lists, keyword dicts, arrays, variable and option dicts, feed-forward transforms). "
         "TLC explores every history of API calls (dumps, attribute reads, to_DiGraph, match_template, template calls creating instances - each handed the caller's own array object -, eleven kinds "
         "of mutation of an instance incl. the register list of a feed-forward argument, an element of an array argument, an element of an array variable with and without parameters, a variable removed, a list element inside an option replaced) up to a depth and checks the action properties Pure (read-only actions leave the content of every object "
         "unchanged) and OnlyTargetChanges, and the invariant Independent (no cell reachable from two objects); two teeth runs (to_DiGraph filling "
         "missing args; shallow instances) must yield counterexamples. Every history is replayed on real objects with a deep digest (structure + "
         "dumps text) of every live object after every action, and final contents are compared with the specification's heap.",
    note="Trusted: TLC. One template and one program with fixed content; histories of length 3 (quick) / 4 (thorough). Mutating returned graphs is outside the property.",
    technique="TLC exploration of API histories on a heap-of-cells specification + history replay with per-step digests of all live objects",
    design="7/C13")

CLAIMED["C08"] = dict(
    text="On the listener machine an argument whose term mentions registers is delivered as a transform over exactly those registers (Deliver/RegsOf); "
         "TLC checks TransformIffRegisters, PlainStaysPlain for every generated register expression (5 registers incl. multi-digit q10/q12, int/float "
         "constants, a declared variable; no identically cancelling register by construction) in positional and keyword position. The real loader is "
         "run on each script under several PYTHONHASHSEEDs (the listed order is hash dependent): set(regrefs) must equal the registers written, "
         "without duplicates, and func applied to values in the LISTED order must equal the written expression at 3 sample assignments.",
    note="Trusted: TLC, renderer, the harness term evaluator. Sample values in (0.3, 1.7), away from poles.",
    technique="TLC invariants on register-expression delivery + replay under several hash seeds with pairing check of regrefs and func",
    design="7/C08")
CLAIMED["C18"] = dict(
    text="Layout is defined at the token level: the BBLexer machine (TLC) reproduces the real lexer's token stream of every layout variant, the "
         "BBGrammar machine accepts it, and the variant's significant tokens equal the canonical layout's; the programs are the ones the C02 model "
         "predicts. For every script, layouts drawn from 13 single edits and their combinations (CRLF/CR, tab vs four spaces, final newline, spaces at "
         "every token boundary, 1-3 spaces, trailing spaces, end-of-line comments, comment/blank lines, leading lines) are loaded by the real code "
         "and must give the specification's program.",
    note="Trusted: TLC, renderer. Edits are placed where the property allows them (not next to indentation, no blank/comment lines inside array bodies or loops).",
    technique="TLC lexer/grammar machines validating token streams of layout variants + real loads compared with the spec's program",
    design="7/C18")
CLAIMED["C19"] = dict(
    text="In the specification Load and Serialize are functions of the script (single prediction). BBHashOrder models the places where the code "
         "iterates a set (mode map of an included program, braces around parameters, register order of a transform) with an arbitrary permutation "
         "and TLC checks the outputs are permutation independent for the intended methods; teeth runs with the as-found methods (iteration-order "
         "zip, textual replacement) must yield counterexamples. Scripts stressing those places (from the C01 and C07 models) are loaded and "
         "serialised in separate interpreters under 6 (thorough 32) PYTHONHASHSEEDs; content digests and dumps text must be identical and equal "
         "the specification's prediction.",
    note="Trusted: TLC, SymPy's canonical printing. The register order of a transform is normalised (documented freedom) and its pairing with func checked against the spec.",
    technique="TLC permutation-independence of set-iteration sites + multi-PYTHONHASHSEED replay against the spec's single prediction",
    design="7/C19")

NOT_YET = {}


def main():
    props = [json.loads(l) for l in open(os.path.join(HERE, "properties.jsonl"))]
    checks = []
    na = []
    for p in props:
        pid = p["id"]
        if pid in CLAIMED:
            c = CLAIMED[pid]
            checks.append({
                "property_id": pid,
                "quick_cmd": "./check %s --tier quick" % pid,
                "thorough_cmd": "./check %s --tier thorough" % pid,
                "evidence_file": "/verif/evidence/%s.json" % pid,
                "replay_cmd_template": "./check %s --replay {path}" % pid,
                "engine": "tlc",
                "level_claimed": {"category": "model_checking", "text": c["text"], "design_ref": c["design"]},
                "level_note": c["note"],
                "technique": c["technique"],
            })
        else:
            na.append({"property_id": pid, "reason": NOT_YET.get(
                pid, "not claimed yet: the TLA+ model and its conformance harness for this property are still being built (see DESIGN.md section 10, build order)")})
    m = {
        "version": 1,
        "setup_cmd": "./setup.sh",
        "hooks": {"guard": "BLACKBIRD_VERIF", "enable": "no source hooks: the harness wraps listener callbacks at run time inside its own processes (BLACKBIRD_VERIF=1)",
                  "baseline_off_cmd": "cd /repo && /venv/bin/python -m pytest -ra -q -p no:cacheprovider --timeout=900 --continue-on-collection-errors",
                  "source_commits": [], "add_only": True},
        "engines": [{"name": "tlc", "path": "/usr/local/bin/tlc", "serves_properties": sorted(CLAIMED),
                     "kind_free_text": "TLC 1.8.0 explicit-state model checker on the TLA+ modules in /verif/spec; Python harness in /verif/harness replays TLC-generated cases into the real code and validates recorded traces with TLC"}],
        "checks": checks,
        "not_applicable": na,
        "notes": "All checks: ./check <id> --tier quick|thorough ; exit 0 ok / 1 VIOLATION / 2 machinery failure. See DESIGN.md.",
    }
    with open(os.path.join(HERE, "MANIFEST.json"), "w") as fh:
        json.dump(m, fh, indent=1)
    print("claimed:", sorted(CLAIMED))


if __name__ == "__main__":
    main()
