"""Shared plumbing for the /verif checks: paths, TLC runner, evidence writer, verdict printing.

Everything is rebuilt from /repo's working tree on every run; scratch files live in a fresh
directory under $TMPDIR which is removed when the check exits."""
import atexit, json, os, re, shutil, subprocess, sys, tempfile, time

VERIF = os.path.dirname(os.path.dirname(os.path.abspath(__file__)))
REPO = os.environ.get("VERIF_REPO", "/repo")
SPEC = os.path.join(VERIF, "spec")
PY = "/venv/bin/python"
GUARD = "BLACKBIRD_VERIF"
OUT = os.environ.get("VERIF_OUT", VERIF)       # evidence/ and replays/ go here (redirected when a check is tried on a scratch worktree)

_scratch = None


def scratch():
    """Fresh scratch directory for this process (removed at exit)."""
    global _scratch
    if _scratch is None:
        _scratch = tempfile.mkdtemp(prefix="bbverif_")
        atexit.register(lambda: shutil.rmtree(_scratch, ignore_errors=True))
    return _scratch


def seed():
    try:
        return int(os.environ.get("VERIF_SEED", "0"))
    except ValueError:
        return 0


class MachineryError(Exception):
    """The checking machinery itself failed (exit code 2, never a VIOLATION)."""


class TlcResult:
    def __init__(self, out, rc, wall):
        self.out, self.rc, self.wall = out, rc, wall
        m = re.search(r"(\d+) states generated, (\d+) distinct states found", out)
        self.generated = int(m.group(1)) if m else 0
        self.distinct = int(m.group(2)) if m else 0
        m = re.search(r"The depth of the complete state graph search is (\d+)", out)
        self.depth = int(m.group(1)) if m else 0
        self.violated = re.findall(r"Error: Invariant (\S+) is violated", out)
        self.violated += re.findall(r"Error: Action property (\S+) is violated", out)
        if "is violated" in out and not self.violated:
            self.violated.append("?")
        self.error = None
        if rc != 0 and not self.violated:
            errs = [l for l in out.splitlines() if l.startswith("Error:") or "Exception" in l]
            self.error = "\n".join(errs[:8]) or ("tlc exit code %d" % rc)

    def tagged(self, tag):
        """JSON payloads of lines printed by PrintT(<<tag, ToJson(x)>>) (single worker)."""
        res = []
        pre = '<<"%s", ' % tag
        for line in self.out.splitlines():
            if line.startswith(pre) and line.endswith(">>"):
                body = line[len(pre):-2]
                res.append(json.loads(json.loads(body)))
        return res

    def tuples(self, tag):
        """Raw text of lines PrintT(<<tag, ...>>)."""
        pre = '<<"%s", ' % tag
        return [l[len(pre):-2] for l in self.out.splitlines() if l.startswith(pre) and l.endswith(">>")]

    def counterexample(self):
        out = "\n".join(l for l in self.out.splitlines() if not l.startswith('<<"'))
        i = out.find("Error: The behavior up to this point is:")
        if i < 0:
            return ""
        j = out.find("states generated", i)
        return out[i:j if j > 0 else None][:20000]


def run_tlc(module, cfg, generated=None, workers=16, env=None, timeout=3600, simulate=None,
            extra=None, jvm=None, deadlock=False, keep=None):
    """Run TLC on spec/<module>.tla with configuration text `cfg`.

    generated: dict filename -> text of modules generated at check time (placed beside the specs).
    simulate: e.g. "num=1000" plus depth given in extra.
    Returns TlcResult. The working directory is a fresh scratch copy of /verif/spec."""
    d = tempfile.mkdtemp(prefix="tlc_", dir=scratch())
    for f in os.listdir(SPEC):
        if f.endswith(".tla"):
            shutil.copy(os.path.join(SPEC, f), d)
    for name, text in (generated or {}).items():
        with open(os.path.join(d, name), "w") as fh:
            fh.write(text)
    with open(os.path.join(d, module + ".cfg"), "w") as fh:
        fh.write(cfg)
    cmd = ["java", "-XX:+UseParallelGC"] + (jvm or []) + [
        "-cp", "/opt/veriftools/tla/tla2tools.jar:/opt/veriftools/tla/CommunityModules-deps.jar",
        "tlc2.TLC", "-workers", str(workers), "-metadir", os.path.join(d, "meta"),
        "-noGenerateSpecTE", "-nowarning"]
    if not deadlock:
        cmd += ["-deadlock"]
    if simulate:
        cmd += ["-simulate", simulate]
    cmd += (extra or []) + ["-config", module + ".cfg", module + ".tla"]
    e = dict(os.environ)
    e.update(env or {})
    t0 = time.time()
    try:
        p = subprocess.run(cmd, cwd=d, env=e, stdout=subprocess.PIPE, stderr=subprocess.STDOUT,
                           timeout=timeout, text=True, errors="replace")
        out, rc = p.stdout, p.returncode
    except subprocess.TimeoutExpired as te:
        out = (te.stdout or b"").decode(errors="replace") if isinstance(te.stdout, bytes) else (te.stdout or "")
        rc = 124
    res = TlcResult(out, rc, time.time() - t0)
    res.dir = d
    if keep is None:
        shutil.rmtree(os.path.join(d, "meta"), ignore_errors=True)
    return res


def require_ok(res, what):
    """TLC must have finished without error and without a violated invariant (spec-level self check)."""
    if res.error:
        tail = "\n".join(l[:300] for l in res.out.splitlines() if not l.startswith('<<"'))[-3000:]
        raise MachineryError("%s: TLC failed: %s\n%s" % (what, res.error, tail))
    return res


class Report:
    """Collects coverage and violations of one check run and writes the evidence file."""

    def __init__(self, pid, tier, level="model_checking"):
        self.pid, self.tier, self.level = pid, tier, level
        self.t0 = time.time()
        self.cov = {"states": 0, "transitions": 0, "traces_validated_against_impl": 0, "samples": [],
                    "evaluations": 0, "distinct_nontrivial": 0, "rule": ""}
        self.assumptions = []
        self.violations = []     # (fingerprint, description, replay dict)
        self.known = []
        self.notes = []

    def add_tlc(self, res, name):
        self.cov["states"] += res.distinct
        self.cov["transitions"] += res.generated
        self.cov.setdefault("tlc_runs", []).append(
            {"model": name, "distinct_states": res.distinct, "states_generated": res.generated,
             "depth": res.depth, "wall_s": round(res.wall, 1)})

    def sample(self, x, cap=6):
        if len(self.cov["samples"]) < cap:
            self.cov["samples"].append(x)

    def violation(self, desc, replay):
        self.violations.append((desc, replay))

    def finish(self):
        kf = load_known()
        real = []
        for desc, replay in self.violations:
            fp = replay.get("fingerprint")
            ent = next((k for k in kf.get("findings", []) if k["property"] == self.pid and
                        k.get("status") == "open" and fp is not None and k["key"] == fp), None)
            if ent:
                self.known.append((ent, desc))
            else:
                real.append((desc, replay))
        seen = set()
        for ent, desc in self.known:
            if ent["key"] not in seen:
                seen.add(ent["key"])
                print("KNOWN-FINDING: property=%s %s" % (self.pid, ent["what"]))
        paths = []
        import glob
        for old in glob.glob(os.path.join(OUT, "replays", "%s_%s_*.json" % (self.pid, self.tier))):
            os.remove(old)
        for i, (desc, replay) in enumerate(real[:20]):
            os.makedirs(os.path.join(OUT, "replays"), exist_ok=True)
            path = os.path.join(OUT, "replays", "%s_%s_%d.json" % (self.pid, self.tier, i))
            replay = dict(replay)
            replay["property"] = self.pid
            replay["description"] = desc
            with open(path, "w") as fh:
                json.dump(replay, fh, indent=1, default=str)
            paths.append(path)
            print("VIOLATION property=%s replay=%s" % (self.pid, path))
            print("  " + desc[:600])
        ev = {"property_id": self.pid, "tier": self.tier, "seed": seed(), "level": self.level,
              "coverage": self.cov, "assumptions": self.assumptions,
              "wall_s": round(time.time() - self.t0, 2), "violations": len(real)}
        if self.violations:
            hist = {}
            for desc, _ in self.violations:
                key = re.sub(r"[0-9]+", "#", desc.split(" | ")[0])[:90]
                hist[key] = hist.get(key, 0) + 1
            ev["coverage"]["violation_reasons"] = hist
        if self.notes:
            ev["coverage"]["notes"] = self.notes
        if self.known:
            ev["coverage"]["known_findings_hit"] = sorted({k["key"] for k, _ in self.known})
        os.makedirs(os.path.join(OUT, "evidence"), exist_ok=True)
        with open(os.path.join(OUT, "evidence", self.pid + ".json"), "w") as fh:
            json.dump(ev, fh, indent=1, default=str)
        return 1 if real else 0


def load_known():
    p = os.path.join(VERIF, "known_findings.json")
    if os.path.exists(p):
        with open(p) as fh:
            return json.load(fh)
    return {"findings": []}


def repo_python_env(hashseed="0"):
    e = dict(os.environ)
    e["PYTHONPATH"] = os.path.join(REPO, "blackbird_python") + os.pathsep + VERIF
    e["PYTHONHASHSEED"] = str(hashseed)
    e[GUARD] = "1"
    return e
