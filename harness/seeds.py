"""Run case batches in subprocesses under distinct PYTHONHASHSEEDs (one interpreter per seed and chunk)."""
import json, os, subprocess, sys
from concurrent.futures import ThreadPoolExecutor
from . import common


def hash_seeds(seed, k):
    import random
    rng = random.Random(seed * 7 + 3)
    s = [0, 1]
    while len(s) < k:
        x = rng.randrange(2, 4294967295)
        if x not in s:
            s.append(x)
    return s[:k]


def run_under_seeds(cases, hseeds, nchunks=None):
    """-> {hashseed: [result per case]}"""
    nchunks = nchunks or max(1, min(16 // max(1, len(hseeds)) or 1, (len(cases) + 199) // 200))
    nchunks = max(1, min(nchunks, 16))
    chunks = [cases[i::nchunks] for i in range(nchunks)]
    jobs = []
    d = common.scratch()
    for hs in hseeds:
        for ci, ch in enumerate(chunks):
            jf = os.path.join(d, "seedjob_%d_%d.json" % (hs, ci))
            of = os.path.join(d, "seedout_%d_%d.json" % (hs, ci))
            json.dump({"cases": ch}, open(jf, "w"))
            jobs.append((hs, ci, jf, of))

    def go(j):
        hs, ci, jf, of = j
        env = common.repo_python_env(hashseed=hs)
        p = subprocess.run([common.PY, "-m", "harness.seedrun", jf, of], cwd=common.VERIF, env=env, stdout=subprocess.PIPE, stderr=subprocess.STDOUT, text=True)
        if p.returncode != 0:
            raise common.MachineryError("seedrun failed under PYTHONHASHSEED=%s:\n%s" % (hs, p.stdout[-2000:]))
        return hs, ci, json.load(open(of))
    res = {hs: [None] * len(cases) for hs in hseeds}
    with ThreadPoolExecutor(max_workers=16) as ex:
        for hs, ci, out in ex.map(go, jobs):
            idx = list(range(len(cases)))[ci::nchunks]
            for i, r in zip(idx, out):
                res[hs][i] = r
    return res
