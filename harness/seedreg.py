"""Development tool (not a registered check): re-run the quick checks against every recorded seeded change.
usage: python -m harness.seedreg [dir-name ...]        (default: every directory of /verif/seeded)
For each /verif/seeded/<d>/patch.diff a scratch worktree of /repo at HEAD is created outside /repo and /verif, the patch is
applied, the checks named in meta.json's "detected_by" run against it (VERIF_REPO / VERIF_OUT), and the worktree is removed.
The table is written to /verif/seeded/REGRESSION.json."""
import json, os, shutil, subprocess, sys, tempfile

VERIF = os.path.dirname(os.path.dirname(os.path.abspath(__file__)))
REPO = "/repo"


def sh(cmd, cwd, env=None, timeout=3600):
    e = dict(os.environ)
    e.update(env or {})
    p = subprocess.run(cmd, cwd=cwd, env=e, shell=True, stdout=subprocess.PIPE, stderr=subprocess.STDOUT, text=True, timeout=timeout)
    return p.returncode, p.stdout


def main():
    seeded = os.path.join(VERIF, "seeded")
    names = sys.argv[1:] or sorted(d for d in os.listdir(seeded) if os.path.isfile(os.path.join(seeded, d, "patch.diff")))
    base = tempfile.mkdtemp(prefix="bbseedreg_")
    table = {}
    path = os.path.join(seeded, "REGRESSION.json")
    if sys.argv[1:] and os.path.exists(path):
        table = json.load(open(path))["results"]
    head = sh("git rev-parse --short HEAD", REPO)[1].strip()
    try:
        for d in names:
            meta = json.load(open(os.path.join(seeded, d, "meta.json")))
            wt = os.path.join(base, d)
            rc, o = sh("git worktree add --detach %s HEAD -f" % wt, REPO)
            try:
                rc, o = sh("git apply %s" % os.path.join(seeded, d, "patch.diff"), wt)
                if rc != 0:          # recorded while utils.py temporarily had LF line endings
                    rc, o2 = sh("git apply --ignore-whitespace %s" % os.path.join(seeded, d, "patch.diff"), wt)
                    if rc == 0:          # keep the file's CRLF line endings uniform
                        sh("/venv/bin/python -c \"import re;p='blackbird_python/blackbird/utils.py';b=open(p,'rb').read();open(p,'wb').write(re.sub(rb'\\r?\\n', b'\\r\\n', b))\"", wt)
                    o += o2
                if rc != 0:          # recorded before later fix commits touched the same lines: three-way merge on the recorded blobs
                    rc, o2 = sh("git apply --3way %s && git reset -q" % os.path.join(seeded, d, "patch.diff"), wt)
                    o += o2
                if rc != 0:
                    table[d] = {"error": "patch does not apply to HEAD: " + o.strip()[:200]}
                    print(d, table[d], flush=True)
                    continue
                res = {}
                for c in sorted(meta.get("detected_by", {meta.get("breaks_property", d[:3]): 0})):
                    out = os.path.join(base, "out_%s_%s" % (d, c))
                    rc, o = sh("./check %s --tier quick" % c, VERIF, {"VERIF_REPO": wt, "VERIF_OUT": out})
                    lines = [l for l in o.splitlines() if not l.startswith("<<")]
                    viol = [l for l in lines if l.startswith("VIOLATION")]
                    res[c] = {"exit": rc, "violations": len(viol), "detected": rc == 1 and len(viol) > 0}
                    shutil.rmtree(out, ignore_errors=True)
                table[d] = res
                print(d, res, flush=True)
            finally:
                sh("git worktree remove --force %s" % wt, REPO)
    finally:
        sh("git worktree prune", REPO)
        shutil.rmtree(base, ignore_errors=True)
    json.dump({"repo_head": head, "results": table,
               "all_detected_except_known_gaps": all(any(v.get("detected") for v in r.values()) for d, r in table.items()
                                                     if "error" not in r and not json.load(open(os.path.join(seeded, d, "meta.json"))).get("undetected")),
               "known_gaps": sorted(d for d in table if json.load(open(os.path.join(seeded, d, "meta.json"))).get("undetected"))},
              open(path, "w"), indent=1, sort_keys=True)
    known_gaps = {d for d in table if json.load(open(os.path.join(seeded, d, "meta.json"))).get("undetected")}
    missed = [d for d, r in table.items() if d not in known_gaps and ("error" in r or not any(v.get("detected") for v in r.values()))]
    print("missed or not applicable:", missed)


if __name__ == "__main__":
    main()
