"""TLC as batch oracle / trace validator for the syntax layer."""
import json, os, re, tempfile
from . import common


def lex_oracle(syn, mods, cases, workers=16, timeout=1800):
    """cases: list of (text, real_tokens). Returns (TlcResult, list of verdict booleans per case)."""
    payload = [dict(text=syn.classify(t), toks=[dict(ty=k["ty"], start=k["start"], stop=k["stop"]) for k in toks])
               for t, toks in cases]
    path = os.path.join(common.scratch(), "lexcases_%d.json" % len(os.listdir(common.scratch())))
    with open(path, "w") as fh:
        json.dump(payload, fh)
    r = common.run_tlc("LexOracle", "INIT Init\nNEXT Next\nCONSTRAINT Verdict\n", generated=mods,
                       env={"CASE_FILE": path}, workers=workers, timeout=timeout)
    common.require_ok(r, "LexOracle")
    verdict = {}
    for t in r.tuples("LEXV"):
        k, ok, ti = [x.strip() for x in t.split(",")]
        verdict[int(k)] = (ok == "TRUE")
    if len(verdict) != len(cases):
        raise common.MachineryError("LexOracle: %d verdicts for %d cases\n%s" % (len(verdict), len(cases), r.out[-2000:]))
    os.remove(path)
    return r, [verdict[i + 1] for i in range(len(cases))]


def parse_oracle(syn, mods, token_strings, D=40, workers=16, timeout=1800):
    """token_strings: lists of token types WITHOUT EOF. Returns (TlcResult, FirstBad per case; -1 = sentence)."""
    payload = [list(ts) + [syn.g.EOF] for ts in token_strings]
    path = os.path.join(common.scratch(), "parcases_%d.json" % len(os.listdir(common.scratch())))
    with open(path, "w") as fh:
        json.dump(payload, fh)
    r = common.run_tlc("ParseOracle", "CONSTANT D = %d\nINIT Init\nNEXT Next\nCONSTRAINT Verdict\n" % D,
                       generated=mods, env={"CASE_FILE": path}, workers=workers, timeout=timeout,
                       jvm=["-Xss256m"])
    common.require_ok(r, "ParseOracle")
    verdict = {}
    for t in r.tuples("FB"):
        k, v = [x.strip() for x in t.split(",")]
        verdict[int(k)] = int(v)
    if len(verdict) != len(payload):
        raise common.MachineryError("ParseOracle: %d verdicts for %d cases\n%s" % (len(verdict), len(payload), r.out[-2000:]))
    os.remove(path)
    return r, [verdict[i + 1] for i in range(len(payload))]


def sentgen(mods, L, D=40, workers=16, timeout=3000, prefixes=((),)):
    """BFS over the grammar's subset automaton from each context prefix, L tokens deep; returns distinct witnesses"""
    mods = dict(mods)
    sets = ",".join("<<%s>>" % ",".join(str(t) for t in p) for p in prefixes)
    mods["SentGenPrefix.tla"] = "---- MODULE SentGenPrefix ----\nEXTENDS SentGen\nThePrefixes == {%s}\n====\n" % sets
    r = common.run_tlc("SentGenPrefix", "CONSTANT D = %d\nCONSTANT L = %d\nCONSTANT Prefixes <- ThePrefixes\nINIT Init\nNEXT Next\nVIEW View\nCONSTRAINT EmitC\n" % (D, L),
                       generated=mods, workers=workers, timeout=timeout)
    common.require_ok(r, "SentGen")
    seen = {}
    for c in r.tagged("SENT"):
        seen.setdefault(tuple(c["w"]), c)
    return r, list(seen.values())
