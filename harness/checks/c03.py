"""C03 - expressions evaluate to their arithmetic value under the grammar's precedence."""
import json, random
from fractions import Fraction
from .. import common, absyn, values

PRELUDE = ("name c03\nversion 1.0\nfloat x = 0.75\nint n = 5\nfloat p0 = 2.5\ncomplex z = 0.5-1j\n"
           "int array A =\n    7, 4\n    1, 6\nfloat array B =\n    0.25, 2.5, -3.0\n")
ENV = {"x": 0.75, "n": 5, "p0": 2.5, "z": complex(0.5, -1), "A": [7, 4, 1, 6], "B": [0.25, 2.5, -3.0]}
PRELUDE2 = PRELUDE + "T({x}, k=[{n}, {z}]) | 1\nG(A[1], B[2]) | 0\nint array A =\n    9, 8, 3, 6\nfloat array B =\n    0.5\n    1.25\n    4.0\n"
ENV2 = {"x": 0.75, "n": 5, "p0": 2.5, "z": complex(0.5, -1), "A": [9, 8, 3, 6], "B": [0.5, 1.25, 4.0]}
PRELUDE3 = PRELUDE + "G(A[1], B[2]) | 0\nint A = A*A-A\nfloat B = B*B\n"
ENV3 = {"x": 0.75, "n": 5, "p0": 2.5, "z": complex(0.5, -1), "A": [42, 12, 0, 30], "B": [0.0625, 6.25, 9.0]}
FNS_QUICK = ["sin", "sqrt", "exp"]
FNS_ALL = ["sin", "cos", "tan", "arcsin", "arccos", "arctan", "sinh", "cosh", "tanh", "arcsinh", "arccosh", "arctanh", "sqrt", "log", "exp"]


def judge(case):
    """run one TLC case against the real loader; returns (status, detail)"""
    from .. import realrun
    e, v, sd = case["e"], case["v"], case["seed"]
    rng = random.Random(sd)
    pre, env = {1: (PRELUDE, ENV), 2: (PRELUDE2, ENV2), 3: (PRELUDE3, ENV3)}[case.get("env", 1)]
    text = pre + "G(" + absyn.render_expr(e, rng) + ") | 0\n"
    out = {"text": text}
    # the rendered text must parse back to exactly the tree TLC enumerated (binding table = ANTLR's tree)
    tree_ok = None
    try:
        tr = realrun.parse_tree(text)
        st = absyn.tree2abs(tr, None)["body"][-1]
        tree_ok = (st["args"][0] == e)
    except BaseException as ex:      # noqa: BLE001
        tree_ok = "parse: %s %s" % (type(ex).__name__, ex)
    out["tree_ok"] = tree_ok
    if v["k"] == "unspec":
        return ("unspec", out)
    res = realrun.loads(text)
    if res[0] == "raise":
        out["observed"] = list(res[1:])
        if v["k"] == "raise":
            return ("ok", out)
        return ("bad", dict(out, reason="loading raised %s: %s" % (res[1], res[2][:200])))
    if v["k"] == "raise":
        return ("bad", dict(out, reason="specification refuses, code returned a program"))
    real = res[1].operations[-1]["args"][0]
    try:
        _, err = values.eval_term(e, env)
    except values.NotComparable as nc:
        return ("skip", dict(out, reason=str(nc)))
    try:
        why = values.compare_number(v, real, err)
    except values.NotComparable as nc:
        return ("skip", dict(out, reason=str(nc)))
    out["observed"] = repr(real)
    if why:
        return ("bad", dict(out, reason=why))
    return ("ok", out)


def fingerprint(case, detail):
    return None


def run(rep, tier, seed):
    from .. import realrun
    K = 2
    fns = FNS_QUICK if tier == "quick" else FNS_ALL
    cfg = ("CONSTANT K = %d\nCONSTANT FnMenu = {%s}\nCONSTANT StrictDomains <- Lenient\nINIT Init\nNEXT Next\nINVARIANT KindRule\nINVARIANT BracketsTransparent\n"
           "INVARIANT NegIsZeroMinus\nCONSTRAINT Emit\n" % (K, ",".join('"%s"' % f for f in fns)))
    r = common.run_tlc("MC_C03", cfg, timeout=3000)
    common.require_ok(r, "MC_C03")
    rep.add_tlc(r, "MC_C03 (all writable expression trees with <= %d operators, %d functions)" % (K, len(fns)))
    if r.violated:
        raise common.MachineryError("MC_C03: spec-level invariant %s violated (specification bug)\n%s" % (r.violated, r.counterexample()[:2000]))
    cases = r.tagged("CASE")
    for i, c in enumerate(cases):
        c["seed"] = seed * 1000003 + i
    res = realrun.pmap(judge, cases)
    cnt = {"ok": 0, "bad": 0, "unspec": 0, "skip": 0}
    tree_bad = 0
    for c, (st, d) in zip(cases, res):
        cnt[st] += 1
        if d.get("tree_ok") is not True:
            tree_bad += 1
            if st != "bad":
                rep.notes.append("parse tree differs from enumerated tree: %r (%s)" % (d["text"].splitlines()[-1], d.get("tree_ok")))
        if st == "bad":
            rep.violation("%s | %s" % (d["reason"], d["text"].splitlines()[-1]),
                          {"case": c, "text": d["text"], "reason": d["reason"], "fingerprint": fingerprint(c, d)})
    rep.notes = rep.notes[:10]
    if tree_bad and not cnt["bad"]:
        raise common.MachineryError("C03: %d rendered expressions did not parse back to the enumerated tree: %s" % (tree_bad, rep.notes[:3]))
    for i in (5, len(cases) // 3, len(cases) // 2, len(cases) - 7):
        rep.sample({"expr": res[i][1]["text"].splitlines()[-1], "spec_value": cases[i]["v"], "observed": res[i][1].get("observed"), "status": res[i][0]})
    rep.cov["traces_validated_against_impl"] = cnt["ok"] + cnt["bad"]
    rep.cov["evaluations"] = len(cases)
    rep.cov["distinct_nontrivial"] = cnt["ok"] + cnt["bad"]
    rep.cov["status_counts"] = cnt
    rep.cov["parse_tree_mismatches"] = tree_bad
    rep.cov["rule"] = ("every directly writable expression tree with at most %d operator nodes over 10 leaves (int/float/complex/pi literals in random "
                       "lexical forms, declared scalars, array elements) and %d functions; non-trivial = the specification assigns a value "
                       "(not outside the property's domain) and the error bound allows a comparison; distinct trees by construction" % (K, len(fns)))
    rep.assumptions += ["accuracy of NumPy's elementary functions (a few ulps) is trusted; the harness evaluates the spec's closed term with libm",
                        "tolerance: relative 1e-12 plus 16x a forward error bound of the expression (cancellation)"]


def replay(path):
    d = json.load(open(path))
    st, det = judge(d["case"])
    print(det.get("text"))
    print(st, det.get("reason"), det.get("observed"))
    return 1 if st == "bad" else 0
