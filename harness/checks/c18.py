"""C18 - comments, blank lines, spacing and line-ending style do not change the program."""
import json, random
from .. import common, loadcheck, absyn, progcmp, syntax, oracles

SINGLE = [
    ("crlf", {"nl": "\r\n"}), ("cr", {"nl": "\r"}), ("tab", {"indent": "\t"}), ("no_final_newline", {"final_nl": False}),
    ("spaced", {"spaced": True}), ("wide", {"wide": True}), ("spaced_wide", {"spaced": True, "wide": True}),
    ("trailing_spaces", {"trail": 0.7}), ("eol_comments", {"eol_comment": 0.7}), ("comment_lines", {"own_comment": 0.6}),
    ("blank_lines", {"blank": 0.6}), ("leading_lines", {"lead": 3}), ("no_blank_after_meta", {"blank_after_meta": False}),
]


def variants(rng, k):
    """k layouts: every single edit in turn, then random combinations"""
    out = []
    for i in range(k):
        if i < len(SINGLE) and rng.random() < 0.5:
            out.append(SINGLE[(i + rng.randrange(len(SINGLE))) % len(SINGLE)])
        else:
            picks = rng.sample(SINGLE, rng.randint(2, 4))
            lay = {}
            for _, d in picks:
                lay.update(d)
            out.append(("+".join(n for n, _ in picks), lay))
    return out


def judge(case):
    from .. import realrun, realsyn
    from .. import values
    values.EXTRA_ATOMS = dict(enumerate(case.get("atoms", [])))
    s, out = case["s"], case["out"]
    rng = random.Random(case["seed"])
    canon = absyn.render(s, random.Random(case["seed"]))
    rc = realrun.loads(canon)
    why = progcmp.cmp_outcome(out, rc, sections=("meta", "ops", "modes"), strict_cls=False)
    if why:
        return {"bad": "canonical layout: " + why, "text": canon, "texts": []}
    texts = []
    for name, lay in variants(rng, case["nvar"]):
        t = absyn.render(s, random.Random(case["seed"]), lay)      # same lexical forms, different layout
        texts.append(t)
        r = realrun.loads(t)
        why = progcmp.cmp_outcome(out, r, sections=("meta", "ops", "modes"), strict_cls=False)
        if why:
            return {"bad": "layout %s changes the outcome: %s" % (name, why), "text": t, "texts": []}
    return {"ok": True, "text": canon, "texts": texts}


def fingerprint(case, why):
    return None


def run(rep, tier, seed):
    from .. import realrun, realsyn
    n = 2
    cases = loadcheck.explore(rep, "MC_C02", n, label="MC_C02 scripts up to %d items (the programs the layouts must not change)" % n)
    cases = [c for c in cases if c["out"]["k"] == "ok"]
    rng = random.Random(seed)
    if tier == "quick":
        cases = rng.sample(cases, min(len(cases), 500))
    # random scripts (TLC's Trace_Load computed the program each denotes)
    from .. import randcases
    nr = 150 if tier == "quick" else 1500
    rc = randcases.build(seed + 31, nr)
    randcases.judge(rep, rc, "Trace_Load (oracle for %d random scripts whose layouts are varied)" % nr)
    cases += [dict(s=c["s"], out=c["out"], atoms=c["atoms"]) for c in rc if c["out"]["k"] == "ok"]
    for i, c in enumerate(cases):
        c["seed"] = seed * 29 + i
        c["nvar"] = 6 if tier == "quick" else 14
    res = realrun.pmap(judge, cases, chunk=20, min_items=80)
    texts = []
    for c, r in zip(cases, res):
        if "bad" in r:
            rep.violation("%s | text:\n%r" % (r["bad"], r["text"]), {"case": c, "reason": r["bad"], "text": r["text"], "fingerprint": fingerprint(c, r["bad"])})
        else:
            texts += [(r["text"], t) for t in r["texts"]]
    nvar = len(texts)
    # specification level: the BBLexer machine reproduces the real token stream of every variant, the grammar machine accepts it,
    # and its significant tokens (everything but NEWLINE) are those of the canonical layout
    sample = rng.sample(texts, min(len(texts), 700 if tier == "quick" else 20000))
    syn = syntax.Syntax()
    mods = syn.modules()
    lexcases = [(t, realsyn.lex(t)) for _, t in sample]
    r1, verdicts = oracles.lex_oracle(syn, mods, lexcases)
    rep.add_tlc(r1, "LexOracle (BBLexer machine on %d layout variants)" % len(sample))
    r2, fbs = oracles.parse_oracle(syn, mods, [[k["ty"] for k in toks] for _, toks in lexcases])
    rep.add_tlc(r2, "ParseOracle (grammar machine accepts every variant)")
    NL = syn.g.toknum["NEWLINE"]
    for (canon, t), (_, toks), ok, fb in zip(sample, lexcases, verdicts, fbs):
        if not ok:
            rep.violation("the lexer's token stream for a layout variant differs from blackbird.g4's: %r" % t, {"text": t, "reason": "lexer", "fingerprint": None})
        elif fb != -1:
            rep.violation("the grammar rejects a layout variant at token %d: %r" % (fb, t), {"text": t, "reason": "grammar", "fingerprint": None})
        else:
            sig = [(k["ty"], t[k["start"]:k["stop"] + 1].replace("    ", "\t")) for k in toks if k["ty"] != NL]
            sigc = [(k["ty"], canon[k["start"]:k["stop"] + 1].replace("    ", "\t")) for k in realsyn.lex(canon) if k["ty"] != NL]
            if sig != sigc:
                rep.violation("significant tokens of a layout variant differ from the canonical layout: %r" % t, {"text": t, "reason": "tokens", "fingerprint": None})
    rep.sample({"canonical": texts[0][0], "variant": texts[0][1]})
    rep.sample({"variant": texts[len(texts) // 2][1]})
    rep.cov["variants_loaded"] = nvar
    rep.cov["variants_validated_by_lexer_and_grammar_machines"] = len(sample)
    rep.cov["traces_validated_against_impl"] = nvar + len(sample)
    rep.cov["evaluations"] = nvar
    rep.cov["distinct_nontrivial"] = len({t for _, t in texts})
    rep.cov["rule"] = ("for each of %d scripts (from the C02 model, with the specification's program): %d layouts drawn from 13 single edits (CRLF, CR, tab "
                       "indentation, no final newline, a space at every token boundary, 1-3 spaces, trailing spaces, end-of-line comments, comment "
                       "lines, blank lines, leading lines, no blank line after the metadata) and their combinations; distinct variant texts counted"
                       % (len(cases), cases[0]["nvar"]))
    rep.assumptions += ["blank/comment lines are inserted only before top-level lines (not inside array bodies or loops, not next to indentation), as the property states",
                        "a script whose last line is an array row keeps its final newline (the grammar requires it)"]


def replay(path):
    d = json.load(open(path))
    if "case" in d:
        r = judge(d["case"])
        print(r.get("bad", "agrees now"))
        return 1 if "bad" in r else 0
    print(repr(d["text"]))
    return 1
