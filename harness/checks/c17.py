"""C17 - template matching inverts instantiation, independent of commuting order."""
import json, random
from fractions import Fraction
from .. import common


def arg_text(a):
    if a["kind"] == "const":
        return repr(float(Fraction(*a["v"])))
    c1, c0 = Fraction(*a["c1"]), Fraction(*a["c0"])
    s = "{%s}" % a["p"] if c1 == 1 else ("-{%s}" % a["p"] if c1 == -1 else "%r*{%s}" % (float(c1), a["p"]))
    if c0 != 0:
        s += ("+%r" % float(c0)) if c0 > 0 else ("-%r" % float(-c0))
    return s


# fixed keyword arguments on every operation with arguments; the FIRST such operation of a template also carries a feed-forward one
# (one operation only: a register shared by two operations would be a dependency between them)
KW_TEXT = ", lst=[1, 2.5], s=\"txt\""
KW_FF = ", eps=2*q9+1"


def first_with_args(tmpl):
    return next((i for i, o in enumerate(tmpl) if o["args"]), None)


def fixed_kwargs(ff):
    import sympy as sym
    from blackbird.listener import RegRefTransform
    d = {"eps": RegRefTransform(2 * sym.Symbol("q9") + 1)} if ff else {}
    d.update({"lst": [1, 2.5], "s": "txt"})
    return d


def template_text(tmpl, version="1.0", target=None, kw=True):
    lines = ["name tm", "version %s" % version] + (["target %s" % target] if target else []) + [""]
    k0 = first_with_args(tmpl)
    for i, o in enumerate(tmpl):
        args = "(%s%s)" % (", ".join(arg_text(a) for a in o["args"]), ((KW_FF if i == k0 else "") + KW_TEXT) if kw else "") if o["args"] else ""
        lines.append("%s%s | %s" % (o["name"], args, ", ".join(str(m) for m in o["modes"]) if len(o["modes"]) == 1 else str(list(o["modes"]))))
    return "\n".join(lines) + "\n"


def inst_value(a, env):
    if a["kind"] == "const":
        return float(Fraction(*a["v"]))
    return float(Fraction(*a["c1"])) * env[a["p"]] + float(Fraction(*a["c0"]))


def build_program(tmpl, env, perm, version="1.0", target=None, edit=None):
    """the instance of tmpl at env (floats), reordered by perm (1-based positions -> operation index), optionally edited"""
    import blackbird
    bb = blackbird.BlackbirdProgram(name="inst", version=version)
    if target:
        bb._target["name"] = target
    ops = []
    k0 = first_with_args(tmpl)
    for pos in range(len(perm)):
        o = tmpl[perm[pos] - 1]
        d = {"op": o["name"], "modes": list(o["modes"])}
        if o["args"]:
            d["args"] = [inst_value(a, env) for a in o["args"]]
            d["kwargs"] = fixed_kwargs(perm[pos] - 1 == k0)
        ops.append(d)
    if edit:
        k = edit["k"] - 1
        if edit["kind"] == "rename":
            ops[k]["op"] = "Zgate"
        elif edit["kind"] == "remode":
            m = ops[k]["modes"]
            ops[k]["modes"] = [m[0] + 1] if len(m) == 1 else [m[1], m[0]] + m[2:]
        elif edit["kind"] == "swap":
            ops[k], ops[k + 1] = ops[k + 1], ops[k]
    bb._operations.extend(ops)
    return bb


def judge(case):
    import blackbird
    from blackbird.utils import match_template, TemplateError
    tmpl, perm = case["tmpl"], case["perm"]
    envs = [("exact", {p: float(Fraction(*v)) for p, v in case["env"].items()}, 1e-12)]
    rng = random.Random(case["seed"])
    for _ in range(case["ndec"]):
        envs.append(("decimal", {p: round(rng.uniform(-3, 3), 6) or 0.5 for p in case["env"]}, 1e-9))
    T = blackbird.loads(template_text(tmpl))
    for kind, env, tol in envs:
        P = build_program(tmpl, env, perm)
        try:
            res = match_template(T, P)
        except BaseException as e:      # noqa: BLE001
            return "bad", "matching the instance at %s (%s values, order %s) raised %s: %s" % (env, kind, perm, type(e).__name__, str(e)[:200])
        for p, v in env.items():
            if p not in res or abs(float(res[p]) - v) > tol * max(1.0, abs(v)):
                return "bad", "matching the instance at %s (order %s) returned %s" % (env, perm, res)
        if set(res) - set(env):
            return "bad", "matching returned extra parameters %s" % (sorted(set(res) - set(env)))
    # the same for an instance that is LOADED from a script (the serialisation of the API-built instance), the loads before it being
    # the template's and a hostile history of failing loads that saw parameters
    from .. import realrun
    kind, env, tol = envs[-1]
    try:
        ptext = blackbird.dumps(build_program(tmpl, env, perm))
        realrun.hostile_history(case["seed"])
        P = blackbird.loads(ptext)
    except BaseException as e:      # noqa: BLE001
        return "bad", "serialising and loading the instance at %s raised %s: %s" % (env, type(e).__name__, str(e)[:200])
    try:
        res = match_template(T, P)
    except BaseException as e:      # noqa: BLE001
        return "bad", "matching the instance at %s loaded from its script (order %s) raised %s: %s\n%s" % (env, perm, type(e).__name__, str(e)[:200], ptext)
    for p, v in env.items():
        if p not in res or abs(float(res[p]) - v) > tol * max(1.0, abs(v)):
            return "bad", "matching the instance at %s loaded from its script (order %s) returned %s" % (env, perm, res)
    # the same through the template's own instantiation: T has been matched above, now it is called and its instance reordered
    for kind, env, tol in envs[:case.get("ninst", 3)]:
        try:
            inst = T(**env)
        except BaseException as e:      # noqa: BLE001
            return "bad", "instantiating the template at %s raised %s: %s" % (env, type(e).__name__, str(e)[:200])
        inst._operations = [inst._operations[i - 1] for i in perm]
        try:
            res = match_template(T, inst)
        except BaseException as e:      # noqa: BLE001
            return "bad", "matching T(**%s) reordered by %s raised %s: %s" % (env, perm, type(e).__name__, str(e)[:200])
        for p, v in env.items():
            if p not in res or abs(float(res[p]) - v) > tol * max(1.0, abs(v)):
                return "bad", "matching T(**%s) reordered by %s returned %s" % (env, perm, res)
        if case["edits"]:
            ed = case["edits"][0]["x"]
            k = ed["k"] - 1
            try:
                inst2 = T(**env)
            except BaseException as e:      # noqa: BLE001
                return "bad", "instantiating the template at %s raised %s: %s" % (env, type(e).__name__, str(e)[:200])
            inst2._operations = [inst2._operations[i - 1] for i in perm]
            if ed["kind"] == "rename":
                inst2._operations[k]["op"] = "Zgate"
            elif ed["kind"] == "remode":
                m = inst2._operations[k]["modes"]
                inst2._operations[k]["modes"] = [m[0] + 1] if len(m) == 1 else [m[1], m[0]] + m[2:]
            else:
                inst2._operations[k], inst2._operations[k + 1] = inst2._operations[k + 1], inst2._operations[k]
            try:
                res = match_template(T, inst2)
                return "bad", "the instance T(**%s) edited by %s still matches: %s" % (env, ed, res)
            except TemplateError:
                pass
            except BaseException as e:      # noqa: BLE001
                return "bad", "the edited instance raised %s instead of TemplateError" % type(e).__name__
    env = envs[0][1]
    for ed in case["edits"][:case.get("max_edits", 1000)]:
        P = build_program(tmpl, env, perm, edit=ed["x"])
        try:
            res = match_template(T, P)
            return "bad", "the program edited by %s still matches: %s" % (ed["x"], res)
        except TemplateError:
            pass
        except BaseException as e:      # noqa: BLE001
            return "bad", "the program edited by %s raised %s instead of TemplateError: %s" % (ed["x"], type(e).__name__, str(e)[:150])
    for what, kw in (("version", {"version": "1.1"}), ("target", {"target": "other"})):
        P = build_program(tmpl, env, perm, **kw)
        try:
            match_template(T, P)
            return "bad", "a program with a different %s still matches" % what
        except TemplateError:
            pass
        except BaseException as e:      # noqa: BLE001
            return "bad", "a program with a different %s raised %s instead of TemplateError" % (what, type(e).__name__)
    T2 = blackbird.loads(template_text(tmpl, target="dev"))
    try:
        match_template(T2, build_program(tmpl, env, perm, target="dev"))
    except BaseException as e:      # noqa: BLE001
        return "bad", "template and program with the same target: %s: %s" % (type(e).__name__, str(e)[:150])
    return "ok", ""


def random_templates(rep, tier, seed):
    """longer templates over more modes and gate names, one parameter per argument (parameters repeated across operations), each with a
    random reordering that keeps per-mode order; TLC (Oracle_C17) confirms the reordering is legal, proves the specification's statements
    for the case and lists the edits"""
    import os
    from fractions import Fraction
    rng = random.Random(seed + 1717)
    n = 150 if tier == "quick" else 1500
    out = []
    for _ in range(n):
        nmodes = rng.choice([2, 3, 3, 4])
        L = rng.randrange(4, 8)
        names = ["a", "b", "c", "d"][:rng.choice([1, 2, 3, 4])]
        tmpl = []
        for _ in range(L):
            two = nmodes >= 2 and rng.random() < 0.4
            modes = rng.sample(range(nmodes), 2) if two else [rng.randrange(nmodes)]
            args = []
            for _ in range(rng.choice([0, 1, 1, 2])):
                if rng.random() < 0.3:
                    f = Fraction(rng.randrange(-9, 10), rng.choice([1, 2, 4, 5]))
                    args.append({"kind": "const", "v": [f.numerator, f.denominator]})
                else:
                    c1 = Fraction(rng.choice([-3, -2, -1, 1, 2, 3, 5]), rng.choice([1, 2, 4]))
                    c0 = Fraction(rng.randrange(-4, 5), rng.choice([1, 2, 4]))
                    args.append({"kind": "aff", "p": rng.choice(names), "c1": [c1.numerator, c1.denominator], "c0": [c0.numerator, c0.denominator]})
            tmpl.append({"name": rng.choice(["BS", "S2", "CX"]) if two else rng.choice(["R", "S", "D", "K"]), "modes": modes, "args": args})
        used = sorted({a["p"] for o in tmpl for a in o["args"] if a["kind"] == "aff"})
        if not used:
            continue
        env = {}
        for p in used:
            f = Fraction(rng.choice([-1, 1]) * rng.randrange(1, 40), rng.choice([8, 16, 32]))     # generic: no accidental coincidences
            env[p] = [f.numerator, f.denominator]
        # a random linear extension of "shares a mode => keeps its order"
        remaining = list(range(L))
        perm = []
        while remaining:
            ready = [i for i in remaining if not any(j < i and set(tmpl[j]["modes"]) & set(tmpl[i]["modes"]) for j in remaining)]
            i = rng.choice(ready)
            perm.append(i + 1)
            remaining.remove(i)
        out.append({"tmpl": tmpl, "env": env, "perm": perm})
    path = os.path.join(common.scratch(), "c17cases.json")
    with open(path, "w") as fh:
        json.dump(out, fh)
    r = common.run_tlc("Oracle_C17", "INIT Init\nNEXT Next\nINVARIANT LegalReordering\nINVARIANT MatchInvertsInstantiation\nINVARIANT EditsRejected\nCONSTRAINT Emit\n",
                       env={"CASE_FILE": path}, timeout=3000)
    common.require_ok(r, "Oracle_C17")
    rep.add_tlc(r, "Oracle_C17: %d random templates of 4..7 operations over 2..4 modes, random order-preserving reorderings" % len(out))
    if r.violated:
        raise common.MachineryError("Oracle_C17: spec-level invariant %s violated\n%s" % (r.violated, r.counterexample()[:2500]))
    cases = list({c["t"]["n"]: c for c in r.tagged("CASE")}.values())
    if len(cases) != len(out):
        raise common.MachineryError("Oracle_C17: %d verdicts for %d cases" % (len(cases), len(out)))
    rep.cov["random_templates"] = len(cases)
    return cases


def fingerprint(case, why):
    return None


def run(rep, tier, seed):
    from .. import realrun
    cfg = "CONSTANT GenLen = 5\nINIT Init\nNEXT Next\nINVARIANT MatchInvertsInstantiation\nINVARIANT EditsRejected\nCONSTRAINT Emit\n"
    r = common.run_tlc("MC_C17", cfg, timeout=3000)
    common.require_ok(r, "MC_C17")
    rep.add_tlc(r, "MC_C17 5 hand-written templates x 2 environments + 131 generated 5-operation templates, all reorderings keeping per-mode order, all single edits")
    if r.violated:
        raise common.MachineryError("MC_C17: spec-level invariant %s violated\n%s" % (r.violated, r.counterexample()[:2000]))
    cases = r.tagged("CASE")
    cases += random_templates(rep, tier, seed)
    for i, c in enumerate(cases):
        c["seed"] = seed * 101 + i
        hand = c["t"]["k"] == "hand"
        c["ndec"] = (10 if tier == "quick" else 200) if hand else (2 if tier == "quick" else 10)
        if not hand and tier == "quick":
            c["ninst"], c["max_edits"] = 2, 8
            c["edits"] = sorted(c["edits"], key=lambda e: (e["x"]["kind"] != "swap", e["x"]["k"]))
    res = realrun.pmap(judge, cases, chunk=2, min_items=8)
    for c, (st, why) in zip(cases, res):
        if st == "bad":
            rep.violation("%s | template:\n%s" % (why, template_text(c["tmpl"])), {"case": c, "reason": why, "fingerprint": fingerprint(c, why)})
    rep.sample({"template": template_text(cases[-1]["tmpl"]), "env": cases[-1]["env"], "order": cases[-1]["perm"], "edits": len(cases[-1]["edits"])})
    nmatch = sum(1 + c["ndec"] for c in cases)
    nedit = sum(min(len(c["edits"]), c.get("max_edits", 1000)) + 2 for c in cases)
    rep.cov["traces_validated_against_impl"] = nmatch + nedit
    rep.cov["evaluations"] = nmatch + nedit
    rep.cov["distinct_nontrivial"] = nmatch + nedit
    rep.cov["matches"] = nmatch
    rep.cov["edited_programs"] = nedit
    rep.cov["generated_templates"] = len({json.dumps(c["t"], sort_keys=True) for c in cases if c["t"]["k"] == "gen"})
    rep.cov["rule"] = ("every 5-operation template over {R|0, R|1, BS|[0,1]} with at least two two-mode operations (implied dependencies, wires first "
                       "touched in different orders after reordering), one parameter per operation, and 5 hand-written templates (affine single-parameter arguments, parameters repeated across operations, identical gates on one mode, 2-mode gates) x "
                       "2 exact environments from TLC + %d random 6-digit decimal environments each x every reordering that keeps per-mode order; "
                       "every single edit (gate name, mode list, swap of dependent neighbours, version, target)" % cases[0]["ndec"])
    rep.assumptions += ["decimal environments are chosen by the harness; that Match returns the environment for them follows from the specification's "
                        "statement being generic in the values (TLC checks it for two rational environments)", "tolerance 1e-9 relative for decimals"]


def replay(path):
    d = json.load(open(path))
    st, why = judge(d["case"])
    print(template_text(d["case"]["tmpl"]))
    print(st, why)
    return 1 if st == "bad" else 0
