"""C12 - each load is independent of every earlier load in the process."""
import json, os, random, shutil, tempfile, multiprocessing
from .. import common, absyn, progcmp

SYNTAX_ERR_TEXT = "name a\nversion 1.0\nfloat x = 0.5\nSgate(1) | \n"


def inc_str(inc):
    return ("/" if inc["abs"] else "") + "/".join(list(inc["dirs"]) + [inc["file"]])


def text_of(s, rng):
    if s.get("syntaxerr"):
        return SYNTAX_ERR_TEXT
    s2 = dict(s, incs=[inc_str(i) for i in s["incs"]])
    return absyn.render(s2, rng)


def containers(obj, acc, depth=0):
    import numpy as np
    if depth > 6:
        return
    if isinstance(obj, (list, dict, set, np.ndarray)):
        acc.add(id(obj))
    if isinstance(obj, dict):
        for v in obj.values():
            containers(v, acc, depth + 1)
    elif isinstance(obj, (list, tuple)):
        for v in obj:
            containers(v, acc, depth + 1)


def run_history(job):
    """executed in a fresh forked process: the loads of one history, in order"""
    import blackbird, warnings
    warnings.simplefilter("ignore")
    scripts, files, hist, seed = job["scripts"], job["files"], job["hist"], job["seed"]
    rng = random.Random(seed)
    root = tempfile.mkdtemp(prefix="bbc12_")
    try:
        w = os.path.join(root, "w")
        os.mkdir(w)
        epoch = None
        on_disk = {}
        progs = []
        texts = []
        for k, h in enumerate(hist):
            if h.get("ep", 1) != epoch:          # the included files are edited between two loads
                epoch = h.get("ep", 1)
                for nm, sc in files["e%d" % epoch].items():
                    if on_disk.get(nm) == sc:      # an edit touches only the files whose contents change
                        continue
                    on_disk[nm] = sc
                    with open(os.path.join(w, nm + ".xbb"), "w", encoding="utf-8") as fh:
                        fh.write(text_of(sc, rng))
            s = scripts[h["sid"] - 1]
            text = text_of(s, rng)
            texts.append(text)
            path = os.path.join(w, "main%d.xbb" % k)
            with open(path, "w", encoding="utf-8") as fh:
                fh.write(text)
            try:
                real = ("ok", blackbird.load(path))
            except BaseException as e:      # noqa: BLE001
                real = ("raise", type(e).__name__, str(e.args[0]) if e.args else str(e))
            why = progcmp.cmp_outcome(h["out"], real, sections=("meta", "ops", "modes", "vars", "params"), strict_cls=False)
            if why is None and h["out"]["k"] == "raise" and h["out"]["cls"] == "BSE" and h["out"]["id"] == "syntax" and real[1] != "BlackbirdSyntaxError":
                why = "syntax error raised %s" % real[1]
            if why:
                return {"bad": "load %d of the history (%s, file epoch %d): %s" % (k + 1, s.get("name", "syntax-error script"), epoch, why), "texts": texts,
                        "observed": [str(real[:2]) if real[0] == "raise" else "program"]}
            if real[0] == "ok":
                progs.append(real[1])
        # programs returned by different loads share no mutable state
        sets = []
        for p in progs:
            acc = set()
            for x in (p._operations, p._var, p._target, p._type, p._parameters, p._modes, p._forvar):
                containers(x, acc)
            sets.append(acc)
        for i in range(len(sets)):
            for j in range(i + 1, len(sets)):
                if sets[i] & sets[j]:
                    return {"bad": "programs returned by loads %d and %d share mutable objects" % (i + 1, j + 1), "texts": texts}
        return {"ok": True, "texts": texts}
    finally:
        shutil.rmtree(root, ignore_errors=True)


def run_random_history(job):
    """fresh forked process: random scripts loaded one after the other; each outcome must be the oracle's (pristine) outcome"""
    import warnings
    from .. import realrun, values
    warnings.simplefilter("ignore")
    for k, c in enumerate(job["cases"]):
        real = realrun.loads(c["text"])
        values.EXTRA_ATOMS = dict(enumerate(c["atoms"]))
        try:
            why = progcmp.cmp_outcome(c["out"], real, sections=("meta", "ops", "modes", "vars", "params"), strict_cls=False)
        finally:
            values.EXTRA_ATOMS = {}
        if why:
            return {"bad": "load %d of a history of random scripts: %s" % (k + 1, why), "texts": [x["text"] for x in job["cases"]]}
    return {"ok": True}


def fingerprint(desc):
    return None


def run(rep, tier, seed):
    K = 2 if tier == "quick" else 3
    cfg = ("CONSTANT K = %d\nCONSTANT ClearTablesAtLoadStart = TRUE\nCONSTANT FS <- FS12\nINIT Init\nNEXT Next\n"
           "INVARIANT Independent\nINVARIANT TablesCleanWhenIdle\nCONSTRAINT Emit\n" % K)
    r = common.run_tlc("MC_C12", cfg, timeout=3000)
    common.require_ok(r, "MC_C12")
    rep.add_tlc(r, "MC_C12 all histories of %d loads over 19 scripts, included files edited between loads (tables persist between loads)" % K)
    if r.violated:
        raise common.MachineryError("MC_C12: the intended specification violates %s" % r.violated)
    # teeth: the as-implemented-before-the-fix switch must produce a counterexample (non-vacuity of Independent)
    t = common.run_tlc("MC_C12", cfg.replace("ClearTablesAtLoadStart = TRUE", "ClearTablesAtLoadStart = FALSE").replace("CONSTRAINT Emit\n", ""), timeout=3000)
    rep.cov["teeth_counterexample_found"] = "Independent" in t.violated
    if "Independent" not in t.violated:
        raise common.MachineryError("MC_C12 teeth run found no counterexample: the invariant is vacuous")
    scripts = r.tagged("SCRIPTS")[0]
    files = r.tagged("FILES")[0]
    hists = r.tagged("HIST")
    # longer histories (random walks of the same model): 5 (thorough 7) loads, the invariants checked in every state
    KL = 5 if tier == "quick" else 7
    rs = common.run_tlc("MC_C12", cfg.replace("K = %d" % K, "K = %d" % KL), timeout=3000, workers=4,
                        simulate="num=%d" % (60 if tier == "quick" else 600), extra=["-depth", "600", "-seed", str(seed + 12)])
    common.require_ok(rs, "MC_C12 (random walks)")
    if rs.violated:
        raise common.MachineryError("MC_C12 (random walks): the intended specification violates %s" % rs.violated)
    rep.add_tlc(rs, "MC_C12 random histories of %d loads (simulation)" % KL)
    long_h = rs.tagged("HIST")
    rep.cov["long_histories"] = len(long_h)
    hists = hists + long_h
    uniq = {}
    for h in hists:
        uniq.setdefault(tuple((x["sid"], x["ep"]) for x in h), h)
    jobs = [{"scripts": scripts, "files": files, "hist": h, "seed": seed * 31 + i} for i, h in enumerate(uniq.values())]
    ctx = multiprocessing.get_context("fork")
    with ctx.Pool(16, maxtasksperchild=1) as pool:
        res = pool.map(run_history, jobs, chunksize=1)
    nbad = 0
    for job, rr in zip(jobs, res):
        if "bad" in rr:
            nbad += 1
            rep.violation(rr["bad"] + " | history of (script, file epoch) " + str([(x["sid"], x["ep"]) for x in job["hist"]]) + "\n" + "\n---\n".join(rr["texts"]),
                          {"job": job, "texts": rr["texts"], "reason": rr["bad"], "fingerprint": fingerprint(rr["bad"])})
    # histories of random scripts (TLC's Trace_Load is the oracle for each script alone)
    from .. import randcases
    import random
    npool = 300 if tier == "quick" else 1500
    pool = randcases.build(seed + 23, npool)
    randcases.judge(rep, pool, "Trace_Load (pristine outcome of %d random scripts used in histories)" % npool)
    pool = [dict(text=c["text"], out=c["out"], atoms=c["atoms"]) for c in pool if c["out"]["k"] != "unspec"]
    failing = [c for c in pool if c["out"]["k"] == "raise"]
    rng = random.Random(seed)
    rjobs = []
    for _ in range(200 if tier == "quick" else 2000):
        h = [rng.choice(failing) if (failing and rng.random() < 0.4) else rng.choice(pool) for _ in range(rng.choice((3, 3, 4, 6)))]
        rjobs.append({"cases": h})
    with ctx.Pool(16, maxtasksperchild=1) as pool2:
        rres = pool2.map(run_random_history, rjobs, chunksize=1)
    for job, rr in zip(rjobs, rres):
        if "bad" in rr:
            rep.violation(rr["bad"] + "\n" + "\n---\n".join(rr["texts"]), {"rjob": job, "reason": rr["bad"], "fingerprint": None})
    rep.cov["random_histories"] = len(rjobs)
    rep.cov["traces_validated_against_impl"] += len(rjobs)
    rep.cov["evaluations"] += len(rjobs)
    rep.cov["distinct_nontrivial"] += len(rjobs)
    rep.sample({"history": [scripts[x["sid"] - 1].get("name", "syntax-error") for x in jobs[len(jobs) // 2]["hist"]],
                "spec_outcomes": [x["out"]["k"] for x in jobs[len(jobs) // 2]["hist"]], "texts": res[len(jobs) // 2]["texts"]})
    rep.cov["traces_validated_against_impl"] += len(jobs)
    rep.cov["evaluations"] += len(jobs)
    rep.cov["distinct_nontrivial"] += len(jobs)
    rep.cov["loads_executed"] = sum(len(j["hist"]) for j in jobs)
    rep.cov["rule"] = ("every sequence of %d loads over 19 scripts, the included files (also a nested one) edited or not between two loads (valid, template, tdm with p-array, failing at the syntax stage, at an undefined name, "
                       "at a type error, inside a loop, inside an include, in the metadata, after a parameter was seen; scripts whose target/type options "
                       "mention x, i, p0, {p}); each history runs in its own fresh process; every outcome compared with the pristine outcome" % K)
    rep.assumptions += ["each history starts in a freshly forked interpreter that has not loaded anything"]


def replay(path):
    d = json.load(open(path))
    if "rjob" in d:
        rr = run_random_history(d["rjob"])
        print(rr.get("bad", "agrees now"))
        return 1 if "bad" in rr else 0
    rr = run_history(d["job"])
    print("\n---\n".join(rr["texts"]))
    print(rr.get("bad", "agrees now"))
    return 1 if "bad" in rr else 0
