"""C10 - ungrammatical scripts always raise BlackbirdSyntaxError at the offending token."""
import glob, json, os, random
from .. import common, syntax, oracles, render

SYNTH = [
    'name a\nversion 1.0\ntarget foo (x=1, l=[1, 2], s="a")\ntype tdm (copies=3)\nfloat y = 0.5\ncomplex z = 1+2j\nstr s = "v"\nbool b = True\n'
    'int array A[2, 2] =\n\t1, 2\n\t3, 4\nfloat array p0 =\n\t{al}, 1.0\nG(y, -2**A[1], k=2, l=[1, y]) | [0, 1]\n'
    'for int i in 0:4:2\n\tK(i, sin(q0)) | (i, 1)\nfor float f in [0.5, 1.5]\n\tR(f) | 0\nMeasureX | 0\nMeasure(phi={p}) | 1, 2\n',
    'name b\nversion 1.0\ninclude "x.xbb"\n\nS2gate(1.0, {phi}/2) | [0, 1]\nsub(a=1) | 2\n',
]


def classify_case(rep, text, types, expect, res, realsyn):
    """Compare one real loads() outcome with the grammar machine's verdict. Returns None or a description."""
    passed, exc, msg = res
    if expect == -1:
        if not passed:
            return "grammatical script did not pass the syntax stage (raised %s: %s)" % (exc, msg[:200])
        return None
    if passed:
        return "ungrammatical script passed the syntax stage (first bad token %d)" % expect
    if exc != "BlackbirdSyntaxError":
        return "ungrammatical script raised %s instead of BlackbirdSyntaxError: %s" % (exc, msg[:200])
    pos = realsyn.msg_pos(msg)
    if pos is None:
        return "BlackbirdSyntaxError message carries no 'line L:C' position: %r" % msg[:200]
    idx = realsyn.token_index_at(text, pos[0], pos[1] - 1)
    if idx is None:
        return "reported position line %d:%d is not the (1-based) start of any token: %r" % (pos[0], pos[1], msg[:200])
    if idx < expect:
        return "reported token %d is earlier than the first token that makes the text ungrammatical (%d)" % (idx, expect)
    return None


_G = None


def judge_tokens(job):
    """worker: render a token-type string, make sure the real lexer gives it back, load it, compare with the grammar machine's verdict"""
    global _G
    from .. import realsyn
    if _G is None:
        from .. import g4
        _G = g4.Grammar()
    types, expect, variant = job
    text = render.render_tokens(_G, types, variant=variant)
    if text is None or [k["ty"] for k in realsyn.lex(text)] != types:
        return None
    obs = realsyn.loads_syntax_stage(text)
    desc = classify_case(None, text, types, expect, obs, realsyn)
    if desc is None and via_file(text):
        # the same script in a (UTF-8) file, through blackbird.load
        obs2 = realsyn.loads_syntax_stage(text, via="load")
        d2 = classify_case(None, text, types, expect, obs2, realsyn)
        if d2:
            return text, list(obs2), "load(file): " + d2
    return text, list(obs), desc


def via_file(text):
    """which cases are also run through blackbird.load on a file: every text with a non-ASCII character, and one in eight of the rest"""
    import zlib
    return any(ord(ch) > 127 for ch in text) or zlib.crc32(text.encode("utf-8")) % 8 == 0


def fingerprint(desc):
    if "raised KeyError instead" in desc and "parentCtx" in desc:
        return "C10:KeyError-parentCtx"
    return None


def run(rep, tier, seed):
    from .. import realsyn, realrun
    rng = random.Random(seed)
    syn = syntax.Syntax()
    mods = syn.modules()
    g = syn.g

    # (a) every viable prefix found by TLC, extended by every token type: from the start symbol, and from every rule context
    L = 9 if tier == "quick" else 12
    r, sents = oracles.sentgen(mods, L)
    rep.add_tlc(r, "SentGen (viable prefixes up to %d tokens, with viable/accepting next tokens)" % L)
    Lc = 2 if tier == "quick" else 4
    ctx_cov = {"start": len(sents)}
    names = [n_ for n_ in syntax.CONTEXTS if n_ != "start"]
    rc, sc = oracles.sentgen(mods, Lc, prefixes=[syntax.context_tokens(g, n_) for n_ in names])
    rep.add_tlc(rc, "SentGen from %d rule contexts (+%d tokens each)" % (len(names), Lc))
    for n_ in names:
        pre = syntax.context_tokens(g, n_)
        ctx_cov[n_] = sum(1 for c in sc if c["w"][:len(pre)] == pre)
    sents += sc
    rep.cov["prefixes_per_rule_context"] = ctx_cov
    n = 0
    nbad = 0
    jobs = []
    for c in sents:
        nxt, acc = set(c["next"]), set(c["acc"])
        for t in range(1, g.EOF):
            if t in g.skipped:
                continue
            if tier == "quick" and t not in nxt and len(c["w"]) < 10 and rng.random() < 0.6:
                continue
            types = c["w"] + [t]
            expect = -1 if t in acc else (len(types) if t in nxt else len(c["w"]))
            jobs.append((types, expect, rng.randrange(4)))
    res = realrun.pmap(judge_tokens, jobs, chunk=500)
    for (types, expect, _), rr in zip(jobs, res):
        if rr is None:
            continue
        n += 1
        text, obs, desc = rr
        if desc:
            nbad += 1
            rep.violation(desc + " | text=%r" % text, {"kind": "prefix", "text": text, "types": types, "expect": expect,
                                                      "observed": obs, "fingerprint": fingerprint(desc)})
        elif n % 7000 == 3:
            rep.sample({"text": text, "first_bad_token": expect, "observed": obs})
    rep.cov["prefix_cases"] = n

    # (b) single-token mutants of whole scripts (examples + synthetic scripts touching every rule context), judged by ParseOracle
    bases = []
    for f in sorted(glob.glob(os.path.join(common.REPO, "examples", "*.xbb"))):
        bases.append(open(f).read())
    bases += SYNTH
    per = 60 if tier == "quick" else 600
    cases = []
    for tx in bases:
        base = [k["ty"] for k in realsyn.lex(tx)]
        cases.append(("base", base))
        for _ in range(per):
            s = list(base)
            k = rng.randrange(len(s))
            op = rng.choice(["del", "ins", "sub", "swap", "trunc"])
            if op == "del":
                del s[k]
            elif op == "ins":
                s.insert(k, rng.randrange(1, g.EOF))
            elif op == "sub":
                s[k] = rng.randrange(1, g.EOF)
            elif op == "swap" and k + 1 < len(s):
                s[k], s[k + 1] = s[k + 1], s[k]
            elif op == "trunc":
                s = s[:k]
            cases.append((op, s))
    for _ in range(200 if tier == "quick" else 3000):
        cases.append(("soup", [rng.randrange(1, g.EOF) for _ in range(rng.randint(1, 5))]))
    rendered = []
    for op, s in cases:
        if any(t in g.skipped for t in s):
            continue
        text = render.render_tokens(g, s, variant=rng.randrange(4))
        if text is None or [k["ty"] for k in realsyn.lex(text)] != s:
            continue
        rendered.append((op, s, text))
    r, fbs = oracles.parse_oracle(syn, mods, [s for _, s, _ in rendered])
    rep.add_tlc(r, "ParseOracle (FirstBad of %d mutated token strings)" % len(rendered))
    kinds = {}
    for (op, s, text), expect in zip(rendered, fbs):
        res = realsyn.loads_syntax_stage(text)
        n += 1
        kinds[op] = kinds.get(op, 0) + 1
        desc = classify_case(rep, text, s, expect, res, realsyn)
        if desc is None and via_file(text):
            res2 = realsyn.loads_syntax_stage(text, via="load")
            d2 = classify_case(rep, text, s, expect, res2, realsyn)
            if d2:
                res, desc = res2, "load(file): " + d2
        if desc:
            nbad += 1
            rep.violation(desc + " | mutation=%s text=%r" % (op, text[:300]),
                          {"kind": "mutant", "mutation": op, "text": text, "types": s, "expect": expect, "observed": list(res),
                           "fingerprint": fingerprint(desc)})
    rep.sample({"mutation": rendered[1][0], "text": rendered[1][2][:200], "first_bad_token": fbs[1]})
    rep.cov["mutant_cases_by_kind"] = kinds
    rep.cov["traces_validated_against_impl"] = n
    rep.cov["evaluations"] = n
    rep.cov["distinct_nontrivial"] = n
    rep.cov["disagreements"] = nbad
    rep.cov["rule"] = ("(a) each viable prefix from the BFS over the grammar automaton x each token type; (b) single-token deletions, insertions, "
                       "substitutions, swaps, truncations of the examples and two synthetic scripts, and token soups; texts whose real lexing "
                       "does not give back the intended token types are dropped")
    rep.assumptions += ["the lexer maps text to the token types of blackbird.g4 (C14)", "TLC grammar machine BBGrammar built from blackbird.g4",
                        "reported token index may be later than FirstBad (the property allows it), never earlier"]


def replay(path):
    from .. import realsyn
    d = json.load(open(path))
    res = realsyn.loads_syntax_stage(d["text"])
    desc = classify_case(None, d["text"], d["types"], d["expect"], res, realsyn)
    if desc is None:
        res = realsyn.loads_syntax_stage(d["text"], via="load")
        desc = classify_case(None, d["text"], d["types"], d["expect"], res, realsyn)
        desc = desc and "load(file): " + desc
    print("text=%r\nexpected first bad token=%s\nobserved=%s\n%s" % (d["text"], d["expect"], res, desc or "agrees now"))
    return 1 if desc else 0
