"""C06 - a for-loop is equivalent to its textual unrolling."""
import json, random
from .. import common, loadcheck, absyn, progcmp


def judge(case):
    """loop script vs specification, and vs the real load of the unrolled text (both sides executed)"""
    from .. import realrun
    st, d = loadcheck.judge_load(case)
    if st != "ok" or case["out"]["k"] != "ok" or "none" in case.get("un", {"none": 1}):
        return st, d
    text_u = absyn.render(case["un"], random.Random(case["seed"] + 1))
    ru = realrun.loads(text_u)
    if ru[0] == "raise":
        return "bad", dict(d, reason="the unrolled script is refused (%s: %s) although the loop script loads; unrolled:\n%s" % (ru[1], ru[2][:150], text_u))
    why = progcmp.cmp_program(case["out"]["prog"], ru[1], sections=("ops", "modes"))
    if why:
        return "bad", dict(d, reason="unrolled script differs from the loop's specification: %s; unrolled:\n%s" % (why, text_u))
    return st, d


def fingerprint(case, d):
    r = d["reason"]
    if "KeyError" in r:
        loops = [it for it in case["s"]["body"] if it["t"] == "for"]
        if any(it["hdr"]["t"] == "range" and len(range(it["hdr"]["a"], it["hdr"]["b"], it["hdr"]["c"] or 1)) == 0 for it in loops):
            return "C06:empty-range-KeyError"
    return None


def run(rep, tier, seed):
    cases = loadcheck.explore(rep, "MC_C06", 1, items="Loops", prelude="Pre", label="MC_C06 every header x body (one loop after the prelude)",
                              invariants=loadcheck.INVARIANTS, props=loadcheck.PROPS, emit=False,
                              extra_consts="CONSTRAINT EmitU\n")
    n2 = 2 if tier == "quick" else 3
    cases += loadcheck.explore(rep, "MC_C06", n2, items="Mixed", prelude="Pre", label="MC_C06 loops mixed with statements before/after, N=%d" % n2,
                               emit=False, extra_consts="CONSTRAINT EmitU\n")
    n3 = 3 if tier == "quick" else 4
    cases += loadcheck.explore(rep, "MC_C06", n3, items="Again", prelude="Pre", emit=False, extra_consts="CONSTRAINT EmitU\n",
                               label="MC_C06 the same loop repeated over overlapping values with redeclarations in between, N=%d" % n3)
    loadcheck.replay_cases(rep, cases, seed, sections=("ops", "modes", "vars"), fingerprint=fingerprint, judge=judge, strict_cls=False)
    rep.cov["rule"] = ("every loop header (int/float ranges over 0..3 with/without step incl. empty, bracketed/parenthesised/bare lists of int, float, "
                       "bool, str values and expressions, also of the wrong type) x body (loop variable in modes, arguments, keywords, list elements, "
                       "array indices); plus sequences of up to %d items mixing loops and statements; the same loop repeated over overlapping "
                       "values with the scalar and the array its body reads declared again in between; each executed as written and unrolled" % n2)
    rep.assumptions += ["Unroll (BBDenote) substitutes a literal of the converted value; loops whose values are not writable literals are compared with the specification only"]


def replay(path):
    d = json.load(open(path))
    st, det = judge(d["case"])
    print(det["text"])
    print(st, det.get("reason"), det.get("observed"))
    return 1 if st == "bad" else 0
