"""C09 - programs assembled through the API serialise to valid, equivalent scripts."""
import json, random
from fractions import Fraction
import numpy as np
import sympy as sym
from .. import common, values, progcmp
from . import c01


def term_to_sympy(t):
    k = t["t"]
    if k == "par":
        return sym.Symbol(t["p"])
    if k == "num":
        v = t["v"]
        q = Fraction(*v["re"])
        return sym.Integer(int(q)) if v["k"] == "int" else sym.Float(float(q))
    if k == "neg":
        return -term_to_sympy(t["a"])
    if k == "bin":
        a, b = term_to_sympy(t["l"]), term_to_sympy(t["r"])
        return {"+": a + b, "-": a - b, "*": a * b, "/": a / b, "**": a ** b}[t["op"]]
    raise ValueError(k)


def build_value(v, npf):
    """spec value -> real Python value; npf: use 64-bit NumPy scalars instead of Python numbers"""
    k = v["k"]
    if k in ("int", "float", "complex"):
        if v["x"]:
            re, im = Fraction(*v["re"]), Fraction(*v["im"])
            x = int(re) if k == "int" else (float(re) if k == "float" else complex(float(re), float(im)))
        else:
            x = values.ATOMS[v["term"]["a"]]
        if npf:
            x = {"int": np.int64, "float": np.float64, "complex": np.complex128}[k](x)
        return x
    if k == "bool":
        return v["b"]
    if k == "str":
        return v["s"]
    if k == "list":
        return [build_value(x, npf) for x in v["xs"]]
    if k == "arr":
        dt = {"int": np.int64, "float": np.float64, "complex": np.complex128}[v["ty"]]
        return np.array([[build_value(e, False) for e in row] for row in v["rows"]], dtype=dt)
    if k == "sym":
        return term_to_sympy(v["term"])
    if k == "pname":           # a declared p-array of a tdm program is passed by its name
        return v["s"]
    raise ValueError(k)


def build_program(p, npf):
    import blackbird
    bb = blackbird.BlackbirdProgram(name=p["name"], version=p["version"])
    for what, attr in (("target", "_target"), ("type", "_type")):
        if p[what]["name"]:
            getattr(bb, attr)["name"] = p[what]["name"]
            getattr(bb, attr)["options"] = {o["k"]: build_value(o["v"], npf) for o in p[what]["opts"]}
    for o in p["ops"]:
        d = {"op": o["op"], "modes": [np.int64(m) if npf and i % 2 else m for i, m in enumerate(o["modes"])]}
        if o["hasargs"]:
            d["args"] = [build_value(a, npf) for a in o["args"]]
            d["kwargs"] = {x["k"]: build_value(x["v"], npf) for x in o["kw"]}
        bb._operations.append(d)
    for e in p.get("vars", []):
        bb._var[e["n"]] = build_value(e["v"], npf)
    return bb


def judge(case):
    import blackbird
    from .. import realrun
    p = case["p"]
    out = {}
    for npf in (False, True):
        flav = "NumPy" if npf else "Python"
        bb = build_program(p, npf)
        try:
            text = blackbird.dumps(bb)
        except BaseException as e:      # noqa: BLE001
            return "bad", {"reason": "%s scalars: dumps raised %s: %s" % (flav, type(e).__name__, str(e)[:200]), "text": ""}
        out["text"] = text
        r = realrun.loads(text)
        if r[0] == "raise":
            return "bad", {"reason": "%s scalars: the serialised script is refused (%s: %s)" % (flav, r[1], r[2][:200]), "text": text}
        why = progcmp.cmp_program(p, r[1], sections=("meta", "ops", "modes", "params"), kw_order=True)
        if why is None:
            why = c01.exact_program(bb, r[1])
        if why:
            return "bad", {"reason": "%s scalars: the serialised script denotes a different program: %s" % (flav, why), "text": text}
    return "ok", out


def fingerprint(case, d):
    return None


def run(rep, tier, seed):
    from .. import realrun
    nops = 1 if tier == "quick" else 2
    cfg = "CONSTANT NOps = %d\nCONSTANT ClearTablesAtLoadStart = TRUE\nCONSTANT FS <- NoFS9\nINIT Init\nNEXT Next\nINVARIANT RoundTrip\nCONSTRAINT Emit\n" % nops
    r = common.run_tlc("MC_C09", cfg, timeout=3000)
    common.require_ok(r, "MC_C09")
    rep.add_tlc(r, "MC_C09 programs of <= %d operations: Load(Serialize(p)) = p" % nops)
    if r.violated:
        raise common.MachineryError("MC_C09: spec-level RoundTrip violated\n" + r.counterexample()[:2000])
    seen = {}
    for c in r.tagged("CASE"):
        seen.setdefault(json.dumps(c["p"], sort_keys=True), c)
    cases = list(seen.values())
    res = realrun.pmap(judge, cases)
    cnt = {"ok": 0, "bad": 0}
    for c, (st, d) in zip(cases, res):
        cnt[st] += 1
        if st == "bad":
            rep.violation("%s | serialised text:\n%s" % (d["reason"], d["text"]), {"case": c, "reason": d["reason"], "text": d["text"], "fingerprint": fingerprint(c, d)})
    for i in (3, len(cases) // 2, len(cases) - 5):
        rep.sample({"program": cases[i]["p"]["ops"], "serialised": res[i][1].get("text"), "status": res[i][0]})
    rep.cov["status_counts"] = cnt
    rep.cov["traces_validated_against_impl"] = 2 * len(cases)
    rep.cov["evaluations"] = 2 * len(cases)
    rep.cov["distinct_nontrivial"] = len(cases)
    rep.cov["rule"] = ("every program of <= %d operations over the menu: each scalar kind (ints incl. 2^62 and -2^63, floats incl. -0.0, 5e-324, 1e-300, "
                       "+-1e300, complex with negative parts, booleans, strings), 18 arrays (int/float/complex, 6 shapes up to 3x3), lists, SymPy terms, "
                       "in positional, keyword and option position; tdm programs with declared p-arrays (one, two and three rows) passed by name next to arrays passed by value; each built twice (Python and 64-bit NumPy scalars) through the API" % nops)
    rep.assumptions += ["programs are built the way the repository's tests do (BlackbirdProgram + _operations/_target/_type)",
                        "-0.0 compares equal to 0.0"]


def replay(path):
    d = json.load(open(path))
    st, det = judge(d["case"])
    print(det.get("text"))
    print(st, det.get("reason"))
    return 1 if st == "bad" else 0
