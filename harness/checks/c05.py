"""C05 - variables have their declared type; arrays keep written layout and shape."""
import json
from .. import common, loadcheck


def has_bare_param(it):
    return it["t"] == "arr" and any(e["t"] == "par" for r in it["rows"] for e in r)


def is_ragged(it):
    return it["t"] == "arr" and len({len(r) for r in it["rows"]}) > 1


def fingerprint(case, d):
    return None


def run(rep, tier, seed):
    cases = loadcheck.explore(rep, "MC_C05", 1, items="Decls", label="MC_C05 every declaration (scalars, arrays of every row structure/parameter pattern/shape)")
    n = 2 if tier == "quick" else 3
    cases += loadcheck.explore(rep, "MC_C05", n, items="ReadMenu", label="MC_C05 rectangular arrays x readers A[k], N=%d" % n)
    cases += loadcheck.explore(rep, "MC_C05", 4, items="Redecl", label="MC_C05 an indexed array declared again with other contents/shape, reads before and after (4 items)")
    cases += loadcheck.explore(rep, "MC_C05", 3, items="ParOnly", label="MC_C05 arrays made of template parameters only, some of them used earlier in the script; readers (3 items)")
    loadcheck.replay_cases(rep, cases, seed, sections=("ops", "vars", "params"), fingerprint=fingerprint, strict_cls=False)
    rep.cov["ragged_cases"] = sum(1 for c in cases if any(is_ragged(it) for it in c["s"]["body"]))
    rep.cov["param_element_cases"] = sum(1 for c in cases if any(has_bare_param(it) for it in c["s"]["body"]))
    rep.cov["rule"] = ("every array with 1..3 rows of 1..3 entries (all ragged combinations), dtype int/float/complex, elements encoding their "
                       "position, 5 bare-parameter patterns, shapes absent/right/wrong/1-d/3-d; scalars of every type; readers A[k], k in 0..8 "
                       "(out of range = unspecified) and index arithmetic; arrays made of two distinct template parameters only, after earlier uses of those parameters; compared: variables (kind, dtype, shape, every element), operation arguments")
    rep.assumptions += ["out-of-range and negative indices, int x = 2.7, and truncating element conversions are outside the property (unspecified)"]


def replay(path):
    d = json.load(open(path))
    st, det = loadcheck.judge_load(d["case"])
    print(det["text"])
    print(st, det.get("reason"), det.get("observed"))
    return 1 if st == "bad" else 0
