"""C04 - instantiating a template equals substituting values into its text."""
import json, random, re
from fractions import Fraction
from .. import common, loadcheck, absyn, progcmp


def pyval(v):
    q = Fraction(*v["re"])
    if v["k"] == "complex":
        return complex(float(q), float(Fraction(*v["im"])))
    return int(q) if v["k"] == "int" else float(q)


def kwargs_of(env, whole):
    """spec env (per element) -> keyword arguments of the real call (whole-array parameters as 2-D lists)"""
    kw = {}
    grid = {}
    for e in env:
        m = re.match(r"^(.+)_(\d+)_(\d+)$", e["n"])
        if m and m.group(1) in whole:
            grid.setdefault(m.group(1), {})[(int(m.group(2)), int(m.group(3)))] = pyval(e["v"])
        else:
            kw[e["n"]] = pyval(e["v"])
    for p, cells in grid.items():
        nr = 1 + max(r for r, _ in cells)
        nc = 1 + max(c for _, c in cells)
        kw[p] = [[cells[(r, c)] for c in range(nc)] for r in range(nr)]
    return kw


def whole_params(s):
    out = set()
    for it in s["body"]:
        if it["t"] == "arr" and len(it["rows"]) == 1 and len(it["rows"][0]) == 1 and it["rows"][0][0]["t"] == "par" and len(it["shape"]) == 2:
            out.add(it["rows"][0][0]["p"])
    return out


def judge(case):
    from .. import realrun
    st, d = loadcheck.judge_load(case)
    if st != "ok" or case["out"]["k"] != "ok" or not case["inst"]:
        return st, d
    real = realrun.loads(d["text"])
    tmpl = real[1]
    whole = whole_params(case["s"])
    for k, inst in enumerate(case["inst"]):
        kw = kwargs_of(inst["env"], whole)
        import numpy as np
        # the same values as Python numbers / nested lists, and as NumPy scalars / arrays
        kw_np = {a: (np.array(b) if isinstance(b, list) else (np.complex128(b) if isinstance(b, complex) else (np.float64(b) if isinstance(b, float) else np.int64(b))))
                 for a, b in kw.items()}
        for how, kwx in (("Python values", kw), ("NumPy values", kw_np)):
            try:
                p = tmpl(**kwx)
            except BaseException as e:      # noqa: BLE001
                return "bad", dict(d, reason="instantiation with %s %s raised %s: %s" % (how, kwx, type(e).__name__, str(e)[:150]))
            why = progcmp.cmp_program(inst["prog"], p, sections=("ops", "vars", "params"), num_kind=False)
            if why:
                return "bad", dict(d, reason="instantiated with %s %s: %s" % (how, kwx, why))
        text_s = absyn.render(inst["subst"], random.Random(case["seed"] + 17 + k))
        rs = realrun.loads(text_s)
        if rs[0] == "raise":
            return "bad", dict(d, reason="the substituted script is refused (%s: %s):\n%s" % (rs[1], rs[2][:150], text_s))
        why = progcmp.cmp_program(inst["prog"], rs[1], sections=("ops", "vars", "params"), num_kind=False)
        if why:
            return "bad", dict(d, reason="substituted script differs from the instantiation the specification predicts: %s\n%s" % (why, text_s))
        # a missing value is refused with ValueError
        for missing in sorted(kw):
            kw2 = {a: b for a, b in kw.items() if a != missing}
            try:
                tmpl(**kw2)
                return "bad", dict(d, reason="instantiation without a value for %r returned a program" % missing)
            except ValueError:
                pass
            except BaseException as e:      # noqa: BLE001
                return "bad", dict(d, reason="instantiation without a value for %r raised %s, the property demands ValueError" % (missing, type(e).__name__))
    # the template itself is unchanged by the calls
    after = progcmp.cmp_program(case["out"]["prog"], tmpl, sections=("ops", "vars", "params"))
    if after:
        return "bad", dict(d, reason="the template changed by being instantiated: " + after)
    return st, d


def fingerprint(case, d):
    return None


def run(rep, tier, seed):
    N = 2 if tier == "quick" else 3
    cfg = ("CONSTANT N = %d\nCONSTANT ItemMenu <- Items\nCONSTANT ClearTablesAtLoadStart = TRUE\nCONSTANT FS <- NoFS\nINIT Init\nNEXT Next\n"
           "INVARIANT ParamsAsWritten\nINVARIANT TemplateIffParams\nINVARIANT TemplateCommutes\nINVARIANT MissingValueRefused\n"
           "INVARIANT NonTemplateRefused\nCONSTRAINT Emit\n" % N)
    r = common.run_tlc("MC_C04", cfg, timeout=3000)
    common.require_ok(r, "MC_C04")
    rep.add_tlc(r, "MC_C04 template scripts up to %d items x 2 environments (Instantiate o Load = Load o Subst)" % N)
    if r.violated:
        raise common.MachineryError("MC_C04: spec-level invariant %s violated\n%s" % (r.violated, r.counterexample()[:2000]))
    seen = {}
    for c in r.tagged("CASE"):
        seen.setdefault(json.dumps(c["s"], sort_keys=True), c)
    cases = list(seen.values())
    loadcheck.replay_cases(rep, cases, seed, sections=("ops", "vars", "params"), fingerprint=fingerprint, judge=judge, strict_cls=False)
    rep.cov["templates"] = sum(1 for c in cases if c["inst"])
    rep.cov["rule"] = ("scripts of up to %d items from 18 (parameters in positional/keyword arguments with coefficients, powers, pi; scalar initialisers; "
                       "bare {p} at several array positions; whole arrays with declared shape; loop bodies and loop lists), each instantiated with two "
                       "exact environments (ints, negative and fractional values, 2-D arrays), executed both ways (call, and load of the substituted "
                       "text) and with each value missing" % N)
    rep.assumptions += ["instantiated values are compared numerically (int 3 = float 3.0): SymPy may simplify the stored expression",
                        "parameters inside list-valued keywords, in modes and in metadata options are outside the property"]


def replay(path):
    d = json.load(open(path))
    st, det = judge(d["case"])
    print(det["text"])
    print(st, det.get("reason"), det.get("observed"))
    return 1 if st == "bad" else 0
