"""C01 - serialise-then-parse round trip preserves every parsed program, in every generation."""
import json
import numpy as np
from .. import common, loadcheck, progcmp, values

GENS = {"quick": 4, "thorough": 8}


def exact_same(a, b, path="value"):
    """values that must come back exactly (numbers, booleans, strings, lists, numeric arrays)"""
    ka, xa = values.project(a)
    kb, xb = values.project(b)
    if ka in ("sym", "rrt") or kb in ("sym", "rrt"):
        return None
    if ka == "arr" and kb == "arr":
        if xa.dtype == object or xb.dtype == object:
            return None
        if xa.shape != xb.shape or xa.dtype.kind != xb.dtype.kind or not np.array_equal(xa, xb):
            return "%s: array %r came back as %r" % (path, xa.tolist(), xb.tolist())
        return None
    if ka == "list" and kb == "list":
        if len(a) != len(b):
            return "%s: list %r came back as %r" % (path, a, b)
        for i, (x, y) in enumerate(zip(a, b)):
            w = exact_same(x, y, "%s[%d]" % (path, i))
            if w:
                return w
        return None
    if ka != kb or xa != xb:
        return "%s: %r (%s) came back as %r (%s)" % (path, a, ka, b, kb)
    return None


def exact_program(p0, p):
    if len(p0.operations) != len(p.operations):
        return "operation count %d -> %d" % (len(p0.operations), len(p.operations))
    for i, (o0, o) in enumerate(zip(p0.operations, p.operations)):
        a0, a = o0.get("args", []), o.get("args", [])
        k0, k = o0.get("kwargs", {}), o.get("kwargs", {})
        if len(a0) != len(a) or list(k0) != list(k):
            return "operation %d arguments %r %r -> %r %r" % (i, a0, list(k0), a, list(k))
        for j, (x, y) in enumerate(zip(a0, a)):
            w = exact_same(x, y, "operation %d (%s) argument %d" % (i, o0["op"], j))
            if w:
                return w
        for key in k0:
            w = exact_same(k0[key], k[key], "operation %d (%s) keyword %s" % (i, o0["op"], key))
            if w:
                return w
    for what in ("target", "programtype"):
        d0, d = getattr(p0, what), getattr(p, what)
        if d0["name"] != d["name"] or list(d0["options"] or {}) != list(d["options"] or {}):
            return "%s %r -> %r" % (what, d0, d)
        for key in (d0["options"] or {}):
            w = exact_same(d0["options"][key], d["options"][key], "%s option %s" % (what, key))
            if w:
                return w
    return None


def judge(case):
    st, d = loadcheck.judge_load(case)
    if st != "ok" or case["out"]["k"] != "ok" or not case.get("inscope"):
        return st, d
    return chain(case, d)


def judge_random(case):
    """a random script whose program the TLC oracle computed: only the dumps/loads generations are judged here"""
    from .. import values
    values.EXTRA_ATOMS = dict(enumerate(case["atoms"]))
    try:
        return chain(case, {"text": case["text"]})
    finally:
        values.EXTRA_ATOMS = {}


def all_finite(x):
    import numpy as np
    if isinstance(x, dict):
        return all(all_finite(v) for v in x.values())
    if isinstance(x, (list, tuple)):
        return all(all_finite(v) for v in x)
    if isinstance(x, np.ndarray):
        return x.dtype == object or bool(np.all(np.isfinite(x)))
    if isinstance(x, (int, float, complex, np.number)) and not isinstance(x, bool):
        return bool(np.isfinite(x))
    import sympy as sym
    e = getattr(x, "expr", x)
    if isinstance(e, sym.Expr):
        return not e.has(sym.oo, sym.zoo, sym.nan, -sym.oo)
    return True


def used_symbols(x):
    import numpy as np
    import sympy as sym
    if isinstance(x, dict):
        return set().union(*[used_symbols(v) for v in x.values()]) if x else set()
    if isinstance(x, (list, tuple)):
        return set().union(*[used_symbols(v) for v in x]) if x else set()
    if isinstance(x, np.ndarray):
        return used_symbols(x.flatten().tolist()) if x.dtype == object else set()
    e = getattr(x, "expr", x)
    if isinstance(e, sym.Expr):
        return {str(f) for f in e.free_symbols}
    return set()


def file_round_trip(blackbird, p0, text, p_from_text):
    import os, tempfile
    fd, path = tempfile.mkstemp(suffix=".xbb", prefix="bbc01_")
    try:
        with os.fdopen(fd, "w", encoding="utf-8", newline="") as fh:
            blackbird.dump(p0, fh)
        with open(path, encoding="utf-8", newline="") as fh:
            if fh.read() != text:
                return "dump() wrote a different text than dumps() returned"
        try:
            pf = blackbird.load(path)
        except BaseException as e:      # noqa: BLE001
            return "load() of the dumped file raised %s: %s" % (type(e).__name__, str(e)[:150])
        return exact_program(p_from_text, pf)
    finally:
        os.remove(path)


def chain(case, d):
    import blackbird
    from .. import realrun
    st = "ok"
    p0 = realrun.loads(d["text"])[1]
    if not (all_finite(p0.operations) and all_finite(p0.target) and all_finite(p0.programtype) and all_finite(p0.variables)):
        return "unspec", d           # the property is quantified over scripts whose values are finite
    # the property's scope (every parameter occurs in an operation) is decided on the specification's terms; a parameter that
    # occurs only in a sub-expression that cancels identically ({sq}*0) is gone from the real operations: outside the scope
    missing = set(p0.parameters) - used_symbols(p0.operations)
    if missing:
        if progcmp.params_cancel(case["out"]["prog"], missing, ops_only=True):
            return "unspec", d
        return "bad", dict(d, reason="parameters %s of the loaded program occur in none of its operations although the specification's operations depend on them" % sorted(missing))
    p = p0
    texts = []
    stationary = None
    for g in range(1, case["gens"] + 1):
        try:
            t = blackbird.dumps(p)
        except BaseException as e:      # noqa: BLE001
            return "bad", dict(d, reason="generation %d: dumps raised %s: %s" % (g, type(e).__name__, str(e)[:150]), texts=texts)
        texts.append(t)
        r = realrun.loads(t)
        if r[0] == "raise":
            return "bad", dict(d, reason="generation %d: the serialised text is refused (%s: %s); serialised text:\n%s" % (g, r[1], r[2][:150], t), texts=texts)
        p = r[1]
        if g == 1:
            # the same generation through a file: dump() into a UTF-8 text file, load() of that file
            why = file_round_trip(blackbird, p0, t, p)
            if why:
                return "bad", dict(d, reason="generation 1 through a file: %s; serialised text:\n%s" % (why, t), texts=texts)
        why = progcmp.cmp_program(case["out"]["prog"], p, sections=("meta", "ops", "params"), kw_order=True)
        if why is None:
            why = exact_program(p0, p)
        if why:
            return "bad", dict(d, reason="generation %d differs: %s; serialised text:\n%s" % (g, why, t), texts=texts)
        if stationary is None and len(texts) >= 2 and texts[-1] == texts[-2]:
            stationary = g
    d["stationary_at"] = stationary
    return st, d


def fingerprint(case, d):
    return FP(case, d["reason"])


def FP(case, reason):
    return None


def run(rep, tier, seed, module="MC_C01", pid="C01"):
    N = 2 if tier == "quick" else 3
    cases = loadcheck.explore(rep, module, N, emit=False, invariants=["RoundTrip", "Stationary", "SecondGeneration"], props=[], prelude="Pre",
                              extra_consts="CONSTRAINT EmitRT\n", label="%s scripts up to %d items: Load o Serialize round trip, stationarity" % (module, N))
    for c in cases:
        c["gens"] = GENS[tier]
    res = loadcheck.replay_cases(rep, cases, seed, sections=("meta", "ops", "modes", "params"), fingerprint=fingerprint, judge=judge, strict_cls=False)
    if pid == "C01":
        from .. import randcases, realrun
        n = 300 if tier == "quick" else 3000
        rc = randcases.build(seed + 11, n)
        randcases.judge(rep, rc, "Trace_Load (oracle for %d random scripts whose round trip is then executed)" % n)
        rc = [dict(c, gens=GENS[tier], events=None, real=None) for c in rc if c["out"]["k"] == "ok" and c["inscope"]]
        rres = realrun.pmap(judge_random, rc, chunk=10, min_items=40)
        for c, (st_, d_) in zip(rc, rres):
            if st_ == "bad":
                rep.violation("random script: %s | script:\n%s" % (d_["reason"], c["text"]), {"text": c["text"], "reason": d_["reason"], "fingerprint": None})
        rep.cov["random_scripts_round_tripped"] = len(rc)
        rep.cov["traces_validated_against_impl"] += len(rc)
        rep.cov["evaluations"] += len(rc)
        rep.cov["distinct_nontrivial"] += len(rc)
        res = res + rres
    stat = [d.get("stationary_at") for st, d in res if st == "ok" and "stationary_at" in d]
    rep.cov["generations"] = GENS[tier]
    rep.cov["in_scope_programs"] = sum(1 for c in cases if c.get("inscope"))
    rep.cov["stationary_generation_histogram"] = {str(k): stat.count(k) for k in sorted(set(stat), key=lambda x: (x is None, x))}
    rep.cov["induction_not_closed"] = stat.count(None)
    rep.cov["rule"] = ("scripts of up to %d items from a 16-item menu (typed scalars, int/float/complex arrays as arguments, every literal kind incl. "
                       "negative and complex, computed values, list keywords with computed/str/bool elements, computed modes, template parameters with "
                       "overlapping names a/ab/al/alpha/s/sq in positional and keyword position with coefficients, register expressions, loops) x 2 "
                       "metadata variants (options incl. lists, strings, complex); %d generations of dumps/loads each" % (N, GENS[tier]))
    rep.assumptions += ["a parameter that occurs in no operation, and array arguments that still contain parameters, are outside the check (variables are not serialised)",
                        "symbolic arguments compared at 3 sample points, relative 1e-9"]


def replay(path):
    d = json.load(open(path))
    st, det = judge(d["case"])
    print(det["text"])
    print(st, det.get("reason"), det.get("observed"))
    return 1 if st == "bad" else 0
