"""C11 - ill-formed but grammatical programs are refused, never silently accepted."""
import json, re
from .. import common, loadcheck


def judge(case):
    from .. import realrun, realsyn
    st, d = loadcheck.judge_load(case)
    out = case["out"]
    if st != "ok" or out["k"] != "raise" or out["cls"] != "BSE":
        return st, d
    # BlackbirdSyntaxError must name the identifier and its line and column (0- or 1-based column accepted)
    real = realrun.loads(d["text"])
    msg = real[2]
    ident = out["id"]
    if ident not in msg:
        return "bad", dict(d, reason="BlackbirdSyntaxError does not name the identifier %r: %r" % (ident, msg[:200]))
    pos = realsyn.msg_pos(msg)
    if pos is None:
        return "bad", dict(d, reason="BlackbirdSyntaxError for %r carries no line:column: %r" % (ident, msg[:200]))
    meta_lines = 2 + (1 if case["s"]["target"]["name"] else 0) + (1 if case["s"]["type"]["name"] else 0)
    in_meta = any(ident in json.dumps(case["s"][m]) for m in ("target", "type"))
    toks = [t for t in realsyn.lex(d["text"])]
    lines = d["text"].split("\n")
    cands = []
    for t in toks:
        tx = d["text"][t["start"]:t["stop"] + 1]
        if tx == ident and (in_meta or t["line"] > meta_lines):
            cands.append((t["line"], t["col"]))
    if not any(pos[0] == l and pos[1] in (c, c + 1) for l, c in cands):
        return "bad", dict(d, reason="BlackbirdSyntaxError reports line %d:%d, the identifier %r occurs at (line, 0-based col) %s" % (pos[0], pos[1], ident, cands))
    return st, d


def fingerprint(case, d):
    return None


def run(rep, tier, seed):
    n = 2 if tier == "quick" else 3
    cases = loadcheck.explore(rep, "MC_C11", n, prelude="Pre", invariants=loadcheck.INVARIANTS + ["FaultRefused"],
                              label="MC_C11 one fault after up to %d valid items, 3 metadata variants" % (n - 1))
    loadcheck.replay_cases(rep, cases, seed, sections=("ops",), fingerprint=fingerprint, judge=judge, strict_cls=True)
    # include-call faults (wrong number of modes, also with repeated modes; wrong, missing or surplus keywords; arguments to a non-template)
    from . import c07
    cfg = loadcheck.cfg_text(2, "Mains", "FaultMenu", emit=False, invariants=["IllFormedCallRefused"], props=[], fs="FS7", basedir="W", extra_consts="CONSTRAINT EmitI\n")
    r7 = common.run_tlc("MC_C07", cfg, timeout=3000)
    common.require_ok(r7, "MC_C07")
    rep.add_tlc(r7, "MC_C07 ill-formed calls of included programs (10 faults x 9 include layouts)")
    if r7.violated:
        raise common.MachineryError("MC_C07: the specification does not refuse an ill-formed call: %s" % r7.violated)
    files = r7.tagged("FILES")[0]
    seen = {}
    for c in r7.tagged("CASE"):
        if c["out"]["k"] == "raise":
            seen.setdefault(json.dumps(c["s"], sort_keys=True), c)
    inc_cases = list(seen.values())
    for c in inc_cases:
        c["files"] = files
    loadcheck.replay_cases(rep, inc_cases, seed, sections=("ops",), fingerprint=fingerprint, judge=c07.judge, strict_cls=False)
    rep.cov["include_call_fault_cases"] = len(inc_cases)
    kinds = {}
    for c in cases + inc_cases:
        if c["out"]["k"] == "raise":
            key = c["out"]["cls"] + ":" + c["out"]["id"]
            kinds[key] = kinds.get(key, 0) + 1
    rep.cov["refusals_by_class"] = kinds
    rep.cov["rule"] = ("valid prefixes of up to %d items followed by one fault: undefined name in 17 slots (positional, expression, keyword, list element, "
                       "mode, index, array name, loop list, loop body, initialisers, array elements, metadata options), 11 reserved declaration names, "
                       "9 non-integer modes, 7 complex-into-real declarations, 7 loop values of the wrong type; plus 10 ill-formed calls of included programs "
                       "(mode count incl. repeated modes, wrong/missing/surplus keywords, arguments to a non-template) under 9 include layouts" % (n - 1))
    rep.assumptions += ["for undefined/reserved names the exception must be BlackbirdSyntaxError containing the identifier and 'line L:C' (C 0- or 1-based); "
                        "for the other faults any exception counts as refusal"]


def replay(path):
    d = json.load(open(path))
    st, det = judge(d["case"])
    print(det["text"])
    print(st, det.get("reason"), det.get("observed"))
    return 1 if st == "bad" else 0
