"""C07 - calling an included program equals inlining it with renamed modes."""
import json, os, random, shutil, tempfile
from .. import common, loadcheck, absyn, progcmp


def inc_str(inc, root):
    if inc["abs"]:
        return os.path.join(root, *inc["dirs"][1:], inc["file"])
    return "/".join(list(inc["dirs"]) + [inc["file"]])


def make_links(links, root):
    """the symbolic links of the specification's file tree (a relative link, so that the tree can be moved)"""
    for l in links or []:
        src = os.path.join(root, *l["from"][1:])
        dst = os.path.join(root, *l["to"][1:])
        os.makedirs(os.path.dirname(src), exist_ok=True)
        os.makedirs(dst, exist_ok=True)
        if not os.path.lexists(src):
            os.symlink(os.path.relpath(dst, os.path.dirname(src)), src)


def with_inc_strings(s, root):
    return dict(s, incs=[inc_str(i, root) for i in s["incs"]])


def judge(case):
    import blackbird, warnings
    from .. import realrun
    warnings.simplefilter("ignore")
    rng = random.Random(case["seed"])
    root = tempfile.mkdtemp(prefix="bbc07_")
    cwd0 = os.getcwd()
    try:
        for f in case["files"]:
            d = os.path.join(root, *f["path"]["dirs"][1:])
            os.makedirs(d, exist_ok=True)
            with open(os.path.join(d, f["path"]["file"]), "w", encoding="utf-8") as fh:
                fh.write(absyn.render(with_inc_strings(f["s"], root), rng))
        os.makedirs(os.path.join(root, "elsewhere"), exist_ok=True)
        make_links(case.get("links"), root)
        main = with_inc_strings(case["s"], root)
        text = absyn.render(main, rng)
        back = absyn.tree2abs(realrun.parse_tree(text), None)
        if back != main:
            return "render", {"text": text, "reason": "rendered main script does not parse back", "back": back}
        with open(os.path.join(root, "w", "main.xbb"), "w", encoding="utf-8") as fh:
            fh.write(text)
        res = {"text": text}
        if case["out"]["k"] == "unspec":
            return "unspec", res
        for cwd, path in ((os.path.join(root, "w"), "main.xbb"), (root, os.path.join("w", "main.xbb")),
                          (os.path.join(root, "elsewhere"), os.path.join(root, "w", "main.xbb"))):
            os.chdir(cwd)
            try:
                real = ("ok", blackbird.load(path))
            except BaseException as e:      # noqa: BLE001
                real = ("raise", type(e).__name__, str(e.args[0]) if e.args else str(e))
            why = progcmp.cmp_outcome(case["out"], real, sections=("ops", "modes"), strict_cls=False, num_kind=False)
            if why:
                return "bad", dict(res, reason="load(%r) with working directory .../%s: %s" % (path.replace(root, "<root>"), os.path.relpath(cwd, root), why))
        os.chdir(cwd0)
        if case["out"]["k"] == "ok" and "none" not in case["inl"]:
            ti = absyn.render(case["inl"], rng)
            ri = realrun.loads(ti)
            if ri[0] == "raise":
                return "bad", dict(res, reason="the inlined script is refused (%s: %s):\n%s" % (ri[1], ri[2][:150], ti))
            why = progcmp.cmp_program(case["out"]["prog"], ri[1], sections=("ops", "modes"), num_kind=False)
            if why:
                return "bad", dict(res, reason="the inlined script differs from what the specification predicts for the include: %s\n%s" % (why, ti))
        return "ok", res
    finally:
        os.chdir(cwd0)
        shutil.rmtree(root, ignore_errors=True)


def fingerprint(case, d):
    return None


def run(rep, tier, seed):
    n = 2 if tier == "quick" else 3
    runs = [(2, "MainsQuick"), (1, "Mains")] if tier == "quick" else [(3, "MainsQuick"), (2, "Mains")]
    tagged = []
    for n_, mains in runs:
        # IncludeIsInlining and IllFormedCallRefused are evaluated inside EmitAll (once per final state, sharing the unrolled and the
        # inlined script) and printed with each case as 'inlining' / 'refused'
        cfg = loadcheck.cfg_text(n_, mains, "Items", emit=False, invariants=["RegistryAgrees"], props=[],
                                 fs="FS7", basedir="W", extra_consts="CONSTANT LinkTarget <- LinkTarget7\nCONSTRAINT EmitAll\n")
        r = common.run_tlc("MC_C07", cfg, timeout=3000)
        common.require_ok(r, "MC_C07")
        rep.add_tlc(r, "MC_C07 %s (include layouts) x up to %d calls/items over an 11-file tree" % (mains, n_))
        if r.violated:
            raise common.MachineryError("MC_C07: spec-level invariant %s violated\n%s" % (r.violated, r.counterexample()[:2000]))
        broken = [c for c in r.tagged("CASE") if not (c["inlining"] and c["refused"])]
        if broken:
            raise common.MachineryError("MC_C07: the specification contradicts itself (IncludeIsInlining %s, IllFormedCallRefused %s) on\n%s" % (
                broken[0]["inlining"], broken[0]["refused"], json.dumps(broken[0]["s"])[:1500]))
        tagged.append(r)
    files = tagged[0].tagged("FILES")[0]
    links = tagged[0].tagged("LINKS")[0]
    seen = {}
    for r in tagged:
        for c in r.tagged("CASE"):
            seen.setdefault(json.dumps(c["s"], sort_keys=True), c)
    cases = list(seen.values())
    for c in cases:
        c["files"] = files
        c["links"] = links
    loadcheck.replay_cases(rep, cases, seed, sections=("ops", "modes"), fingerprint=fingerprint, judge=judge, strict_cls=False)
    random_trees(rep, tier, seed)
    rep.cov["working_directories_per_case"] = 3
    rep.cov["rule"] = ("10 main scripts (same-directory, repeated, nested, sub-directory, sibling-directory via .., absolute include paths, equally written "
                       "include lines, a template for register-valued calls; quick tier: pairs of items under 5 of them, single items under all) x up to %d items "
                       "from 34 (calls of a 3-mode subroutine on modes {1,3,8} with different mode lists, a two-parameter template with keywords in either "
                       "order and computed values, nested callee, ill-formed calls); each loaded from 3 working directories (relative and absolute load "
                       "path) and compared with the specification and with the real load of the inlined text" % n)
    rep.assumptions += ["callee programs without measured registers; instantiated values compared numerically"]


def random_trees(rep, tier, seed):
    """random include trees far beyond the menu (libraries in three directories, libraries that include and call libraries, relative / .. /
    absolute include lines, repeated include lines, well- and ill-formed calls); TLC (Trace_Load) is oracle and trace validator"""
    from .. import randinc, values
    n = 120 if tier == "quick" else 1500
    cases = randinc.build(rep, seed + 77, n, "Trace_Load (oracle + trace validation for %d random include trees)")
    verdicts, nspec, ncalls = {}, 0, 0
    for c in cases:
        verdicts[c["trace"]] = verdicts.get(c["trace"], 0) + 1
        if c["out"]["k"] != "unspec":
            nspec += 1
        why = progcmp.cmp_outcome(c["out"], c["real"], sections=("ops", "modes"), strict_cls=False, num_kind=False)
        if why:
            rep.violation("random include tree (loaded with working directory %s): %s | trace verdict %s at event %d | main script and files:\n%s"
                          % (c["cwd"], why, c["trace"], c["at"], c["text"]), {"text": c["text"], "reason": why, "fingerprint": None})
        elif c["trace"] not in ("accepted", "unspecified", "none"):
            rep.notes.append("trace of a random include tree left the listener machine (%s at event %d) although the outcome agrees" % (c["trace"], c["at"]))
    rep.cov["random_include_trees"] = len(cases)
    rep.cov["random_include_trees_specified"] = nspec
    rep.cov["random_include_trees_outcomes"] = {k: sum(1 for c in cases if c["out"]["k"] == k) for k in ("ok", "raise", "unspec")}
    rep.cov["random_include_trace_verdicts"] = verdicts
    rep.cov["traces_validated_against_impl"] += len(cases)
    rep.cov["evaluations"] += len(cases)
    rep.cov["distinct_nontrivial"] += nspec
    if cases:
        rep.sample({"random_include_tree": cases[0]["text"][:1500], "oracle_outcome": cases[0]["out"]["k"], "trace_verdict": cases[0]["trace"]})


def replay(path):
    d = json.load(open(path))
    if "case" not in d:
        print(d.get("text"))
        print("recorded:", d.get("reason"), "(random include tree: re-run the check with the same VERIF_SEED to reproduce)")
        return 1
    st, det = judge(d["case"])
    print(det["text"])
    print(st, det.get("reason"))
    return 1 if st == "bad" else 0
