"""C15 - tdm programs pass p-arrays by name and keep their data."""
import json
from .. import common, loadcheck, progcmp
from . import c01


def judge(case):
    from .. import realrun
    import blackbird
    st, d = c01.judge(case)          # load vs specification (incl. variables, parameters) and the dumps/loads generations
    if st != "ok" or case["out"]["k"] != "ok" or not case.get("inscope") or case["s"]["type"]["name"] != "tdm":
        return st, d
    # the reloaded tdm program keeps every p-array and ordinary variable
    p = realrun.loads(d["text"])[1]
    for g in (1, 2):
        p = realrun.loads(blackbird.dumps(p))[1]
        why = progcmp.cmp_program(case["out"]["prog"], p, sections=("vars", "params"), num_kind=False, allow_hoisted=True)
        if why:
            return "bad", dict(d, reason="generation %d of the tdm program: %s; serialised text:\n%s" % (g, why, blackbird.dumps(p)))
    return st, d


def fingerprint(case, d):
    return None


def run(rep, tier, seed):
    N = 2 if tier == "quick" else 3
    inv = ["RoundTrip", "Stationary", "ByName", "NoArrayByValueInTdm", "ByValueOutsideTdm", "PNamesNotParams", "TemplateOnlyWithBraces", "DataKept", "RoundTripVars"]
    cases = loadcheck.explore(rep, "MC_C15", N, metas="TdmMetas", items="TdmItems", prelude="TdmPre", emit=False, invariants=inv, props=[],
                              extra_consts="CONSTRAINT EmitRT\n", label="MC_C15 tdm scripts up to %d items (2 tdm metadata variants + control)" % N)
    for c in cases:
        c["gens"] = 2
    loadcheck.replay_cases(rep, cases, seed, sections=("meta", "ops", "modes", "vars", "params"), fingerprint=fingerprint, judge=judge, strict_cls=False)
    rep.cov["tdm_cases"] = sum(1 for c in cases if c["s"]["type"]["name"] == "tdm")
    rep.cov["rule"] = ("scripts of up to %d items from 13 (four p-arrays of int/float/complex type and 1..3 entries, a scalar and an ordinary array, "
                       "statements using p-arrays in positional and keyword position, ordinary variables, a template parameter, a loop) under two "
                       "tdm metadata variants and a non-tdm control; load, parameters, is_template, variables, two dumps/loads generations" % N)


def replay(path):
    d = json.load(open(path))
    st, det = judge(d["case"])
    print(det["text"])
    print(st, det.get("reason"), det.get("observed"))
    return 1 if st == "bad" else 0
