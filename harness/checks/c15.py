"""C15 - tdm programs pass p-arrays by name and keep their data."""
import json
from .. import common, loadcheck, progcmp
from . import c01


def judge(case):
    from .. import realrun
    import blackbird
    st, d = c01.judge(case)          # load vs specification (incl. variables, parameters) and the dumps/loads generations
    if st != "ok" or case["out"]["k"] != "ok" or not case.get("inscope") or case["s"]["type"]["name"] != "tdm":
        return st, d
    # the reloaded tdm program keeps every p-array and ordinary variable
    p = realrun.loads(d["text"])[1]
    for g in (1, 2):
        p = realrun.loads(blackbird.dumps(p))[1]
        why = progcmp.cmp_program(case["out"]["prog"], p, sections=("vars", "params"), num_kind=False, allow_hoisted=True)
        if why:
            return "bad", dict(d, reason="generation %d of the tdm program: %s; serialised text:\n%s" % (g, why, blackbird.dumps(p)))
    why = instances_keep_data(d["text"])
    if why:
        return "bad", dict(d, reason=why)
    return st, d


def call_values(prog):
    """a value for every written parameter of a loaded template (whole-array parameters p_r_c get one array)"""
    import re
    import numpy as np
    vals, shapes = {}, {}
    for q in map(str, prog.parameters):
        m = re.fullmatch(r"(\w+?)_(\d+)_(\d+)", q)
        if m:
            b, r, c = m.group(1), int(m.group(2)) + 1, int(m.group(3)) + 1
            shapes[b] = (max(shapes.get(b, (0, 0))[0], r), max(shapes.get(b, (0, 0))[1], c))
        else:
            vals[q] = 0.75
    for b, (r, c) in shapes.items():
        vals[b] = (np.arange(r * c, dtype=float).reshape(r, c) + 1) / 4
    return vals


def instances_keep_data(text):
    """the declared arrays stay available under their names - in the template as well, whatever the owner of an INSTANCE does with
    the arrays of that instance (instantiate, change the instance's arrays in place, look at the template and at a later instance)"""
    import copy
    import numpy as np
    import blackbird
    from .. import realrun
    tmpl = realrun.loads(text)[1]
    if not tmpl.is_template():
        return None
    try:
        vals = call_values(tmpl)
        inst = tmpl(**vals)
    except BaseException:      # noqa: BLE001   instantiation itself is C04's subject
        return None
    numeric = {n: copy.deepcopy(v) for n, v in tmpl.variables.items() if isinstance(v, np.ndarray) and v.dtype.kind in "ifc"}
    text0 = None
    try:
        text0 = blackbird.dumps(tmpl)
    except BaseException:      # noqa: BLE001
        pass
    for n, v in inst.variables.items():
        if isinstance(v, np.ndarray) and v.dtype.kind in "ifc" and v.size:
            v[0, 0] = v[0, 0] + 1
    for who, prog in (("the template", tmpl), ("a later instance", tmpl(**vals))):
        for n, v in numeric.items():
            w = prog.variables.get(n)
            if not (isinstance(w, np.ndarray) and w.shape == v.shape and np.array_equal(w, v)):
                return "after an instance changed its own array %s in place, %s holds %r under that name, declared was %r" % (n, who, w, v)
    if text0 is not None and blackbird.dumps(tmpl) != text0:
        return "after an instance changed its own arrays in place, the serialisation of the template changed"
    return None


def fingerprint(case, d):
    return None


def run(rep, tier, seed):
    N = 2 if tier == "quick" else 3
    inv = ["RoundTrip", "Stationary", "ByName", "NoArrayByValueInTdm", "ByValueOutsideTdm", "PNamesNotParams", "TemplateOnlyWithBraces", "DataKept", "RoundTripVars"]
    cases = loadcheck.explore(rep, "MC_C15", N, metas="TdmMetas", items="TdmItems", prelude="TdmPre", emit=False, invariants=inv, props=[],
                              extra_consts="CONSTRAINT EmitRT\n", label="MC_C15 tdm scripts up to %d items (2 tdm metadata variants + control)" % N)
    for c in cases:
        c["gens"] = 2
    loadcheck.replay_cases(rep, cases, seed, sections=("meta", "ops", "modes", "vars", "params"), fingerprint=fingerprint, judge=judge, strict_cls=False)
    rep.cov["tdm_cases"] = sum(1 for c in cases if c["s"]["type"]["name"] == "tdm")
    rep.cov["rule"] = ("scripts of up to %d items from 13 (four p-arrays of int/float/complex type and 1..3 entries, a scalar and an ordinary array, "
                       "statements using p-arrays in positional and keyword position, ordinary variables, a template parameter, a loop) under two "
                       "tdm metadata variants and a non-tdm control; load, parameters, is_template, variables, two dumps/loads generations; for templates: an instance whose arrays are changed in place leaves the template's and later instances' declared arrays alone" % N)


def replay(path):
    d = json.load(open(path))
    st, det = judge(d["case"])
    print(det["text"])
    print(st, det.get("reason"), det.get("observed"))
    return 1 if st == "bad" else 0
