"""C19 - loading and serialising are deterministic across runs and hash seeds."""
import json
from .. import common, loadcheck, seeds


def interesting(c):
    """scripts that stress set iteration: template parameters, measured registers, loops"""
    txt = json.dumps(c["s"]["body"])
    return ('"par"' in txt or '"reg"' in txt) and c["out"]["k"] == "ok"


def fingerprint(case, why):
    return None


def run(rep, tier, seed):
    # spec: the set-iteration sites with arbitrary iteration order (intended methods) + teeth for the two historic sites
    base = 'CONSTANT ModeOrder = "%s"\nCONSTANT BraceMethod = "%s"\nINIT Init\nNEXT Next\nINVARIANT IncludeDeterministic\nINVARIANT BracesDeterministic\nINVARIANT BracesCorrect\nINVARIANT TransformPaired\n'
    r = common.run_tlc("MC_C19", base % ("sorted", "symbolwise"), workers=4)
    common.require_ok(r, "MC_C19")
    rep.add_tlc(r, "MC_C19 set-iteration sites under every permutation (intended methods)")
    if r.violated:
        raise common.MachineryError("MC_C19: intended specification violates %s" % r.violated)
    teeth = {}
    for mo, bm, inv in (("iteration", "symbolwise", "IncludeDeterministic"), ("sorted", "textual", "BracesDeterministic")):
        t = common.run_tlc("MC_C19", base % (mo, bm), workers=4)
        teeth[inv] = inv in t.violated
        if inv not in t.violated:
            raise common.MachineryError("MC_C19 teeth run (%s, %s) found no counterexample" % (mo, bm))
    rep.cov["teeth_counterexamples_found"] = teeth
    # the single-valued predictions: Load is a function in the specification (MC_C01 and MC_C07 explorations)
    n = 2 if tier == "quick" else 3
    c1 = loadcheck.explore(rep, "MC_C01", n, emit=False, invariants=["RoundTrip"], props=[], extra_consts="CONSTRAINT EmitRT\n", prelude="Pre",
                           label="MC_C01 scripts up to %d items (templates with overlapping names, several registers per argument)" % n)
    c1 = [c for c in c1 if interesting(c)]
    cfg = loadcheck.cfg_text(2, "MainsQuick" if tier == "quick" else "Mains", "Items", emit=False, invariants=[], props=[], fs="FS7", basedir="W",
                             extra_consts="CONSTANT LinkTarget <- LinkTarget7\nCONSTRAINT EmitPlain\n")
    r7 = common.run_tlc("MC_C07", cfg, timeout=3000)
    common.require_ok(r7, "MC_C07")
    rep.add_tlc(r7, "MC_C07 include layouts x calls (callee mode sets {1,3,8}, {0,1}, {0,9}, {2,4})")
    files = r7.tagged("FILES")[0]
    links = r7.tagged("LINKS")[0]
    seen = {}
    for c in r7.tagged("CASE"):
        if c["out"]["k"] == "ok":
            seen.setdefault(json.dumps(c["s"], sort_keys=True), c)
    c7 = list(seen.values())
    if tier == "quick":
        import random
        c7 = random.Random(seed).sample(c7, min(len(c7), 1200))
    for c in c7:
        c["files"] = files
        c["links"] = links
        c["sections"] = ["ops", "modes"]
        c["num_kind"] = False
    for c in c1:
        c["sections"] = ["meta", "ops", "modes", "params"]
    # random scripts with TLC's Trace_Load as oracle
    from .. import randcases
    nr = 200 if tier == "quick" else 2000
    rc = randcases.build(seed + 41, nr)
    randcases.judge(rep, rc, "Trace_Load (single prediction for %d random scripts)" % nr)
    cr = [dict(s=c["s"], out=c["out"], atoms=c["atoms"], sections=["meta", "ops", "modes", "params"]) for c in rc if c["out"]["k"] == "ok"]
    cases = c1 + c7 + cr
    for i, c in enumerate(cases):
        c["seed"] = seed * 17 + i
    hs = seeds.hash_seeds(seed, 6 if tier == "quick" else 32)
    res = seeds.run_under_seeds(cases, hs)
    nb = 0
    for i, c in enumerate(cases):
        ref = res[hs[0]][i]
        bad = None
        for h in hs:
            rr = res[h][i]
            if rr["why"]:
                bad = (h, "differs from the specification's single prediction: " + rr["why"])
            elif rr["content"] != ref["content"]:
                bad = (h, "the loaded program's content differs from the one under PYTHONHASHSEED=%s" % hs[0])
            elif rr["dumps"] != ref["dumps"]:
                bad = (h, "the serialisation differs from the one under PYTHONHASHSEED=%s:\n%s\n--- versus ---\n%s" % (hs[0], rr["dumps"], ref["dumps"]))
            if bad:
                break
        if bad:
            nb += 1
            rep.violation("PYTHONHASHSEED=%s: %s | script:\n%s" % (bad[0], bad[1], ref["text"]),
                          {"case": c, "hashseeds": [hs[0], bad[0]], "reason": bad[1], "text": ref["text"], "fingerprint": fingerprint(c, bad[1])})
    rep.sample({"script": res[hs[0]][0]["text"], "dumps": res[hs[0]][0]["dumps"], "identical_under_seeds": hs})
    rep.cov["hash_seeds"] = hs
    rep.cov["traces_validated_against_impl"] = len(cases) * len(hs)
    rep.cov["evaluations"] = len(cases) * len(hs)
    rep.cov["distinct_nontrivial"] = len(cases)
    rep.cov["rule"] = ("scripts with template parameters of overlapping names (a/ab/al/alpha/s/sq), several parameters or measured registers in one "
                       "argument, loops, and main scripts applying included programs on mode sets {1,3,8}, {0,9}, ...; each loaded and serialised in "
                       "separate interpreters under %d PYTHONHASHSEEDs; program content (register order of transforms normalised, pairing checked "
                       "against the specification) and dumps text must be identical and equal the specification's single prediction" % len(hs))


def replay(path):
    d = json.load(open(path))
    res = seeds.run_under_seeds([d["case"]], d["hashseeds"])
    a, b = res[d["hashseeds"][0]][0], res[d["hashseeds"][1]][0]
    print(a["text"])
    bad = a["why"] or b["why"] or (a["content"] != b["content"]) or (a["dumps"] != b["dumps"])
    print("differs" if bad else "agrees now")
    return 1 if bad else 0
