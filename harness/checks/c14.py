"""C14 - shipped lexers and parsers recognise exactly the language of blackbird.g4."""
import glob, os, random
from .. import common, syntax, atn, oracles, render


def identity(rep, syn):
    """Obligation 1: all artefact copies agree with each other and with the grammar's numbering."""
    g = syn.g
    P, C = syntax.PY_DIR, syntax.CPP_DIR
    problems = []
    lex = {"py": syn.lex_ints, "cpp": atn.ints_from_cpp(C + "/blackbirdLexer.cpp"),
           "py.interp": atn.ints_from_interp(P + "/blackbirdLexer.interp"),
           "cpp.interp": atn.ints_from_interp(C + "/blackbirdLexer.interp")}
    par = {"py": syn.par_ints, "cpp": atn.ints_from_cpp(C + "/blackbirdParser.cpp"),
           "py.interp": atn.ints_from_interp(P + "/blackbird.interp"),
           "cpp.interp": atn.ints_from_interp(C + "/blackbird.interp")}
    for what, d in (("lexer", lex), ("parser", par)):
        for k, v in d.items():
            if v != d["py"]:
                i = next((j for j in range(min(len(v), len(d["py"]))) if v[j] != d["py"][j]), min(len(v), len(d["py"])))
                problems.append("%s ATN of %s differs from the Python source at word %d" % (what, k, i))
    want = {k: v for k, v in g.toknum.items() if k != "EOF"}
    # literal names as ANTLR writes them in .tokens: 'lit'=n for rules that are a single literal
    for rel in (P + "/blackbird.tokens", P + "/blackbirdLexer.tokens", C + "/blackbird.tokens", C + "/blackbirdLexer.tokens"):
        tk = atn.tokens_file(rel)
        sym = {k: v for k, v in tk.items() if not k.startswith("'")}
        if sym != want:
            problems.append("%s: symbolic token numbering differs from blackbird.g4 rule order" % rel)
        for k, v in tk.items():
            if k.startswith("'"):
                lit = k[1:-1]
                name = g.tokname.get(v)
                if name is None or render.lexeme(g, v) != lit.replace("\\'", "'"):
                    problems.append("%s: literal %s=%d does not match the grammar" % (rel, k, v))
    names = [r["name"] for r in g.prules]
    lnames = [r["name"] for r in g.lrules]
    for rel, cls in ((P + "/blackbirdParser.py", "parser"), (P + "/blackbirdLexer.py", "lexer")):
        rn = atn.py_list(rel, "ruleNames")
        if rn != (names if cls == "parser" else lnames):
            problems.append("%s: ruleNames differ from blackbird.g4" % rel)
        consts = atn.py_consts(rel)
        for k, v in want.items():
            if consts.get(k) != v:
                problems.append("%s: token constant %s=%s, grammar says %d" % (rel, k, consts.get(k), v))
        if cls == "parser":
            for i, n in enumerate(names):
                if consts.get("RULE_" + n) != i:
                    problems.append("%s: RULE_%s=%s, grammar says %d" % (rel, n, consts.get("RULE_" + n), i))
            sn = atn.py_list(rel, "symbolicNames")
            if sn[1:] != [g.tokname[i] for i in range(1, g.ntok + 1)]:
                problems.append("%s: symbolicNames differ from blackbird.g4" % rel)
    if atn.cpp_enum(C + "/blackbirdParser.h", "PLUS") != want or atn.cpp_enum(C + "/blackbirdLexer.h", "PLUS") != want:
        problems.append("C++ token enum differs from blackbird.g4")
    cr = atn.cpp_enum(C + "/blackbirdParser.h", "RuleStart")
    if cr != {"Rule" + n[0].upper() + n[1:]: i for i, n in enumerate(names)}:
        problems.append("C++ rule enum differs from blackbird.g4")
    if atn.cpp_strvec(C + "/blackbirdParser.cpp", "blackbirdParser::_ruleNames") != names:
        problems.append("C++ parser _ruleNames differ from blackbird.g4")
    if atn.cpp_strvec(C + "/blackbirdLexer.cpp", "blackbirdLexer::_ruleNames") != lnames:
        problems.append("C++ lexer _ruleNames differ from blackbird.g4")
    for rel in (P + "/blackbird.interp", C + "/blackbird.interp"):
        sec = atn.interp_sections(rel)
        if [x for x in sec["rule names"] if x] != names:
            problems.append("%s: rule names differ" % rel)
        if [x for x in sec["token symbolic names"] if x][1:] != [g.tokname[i] for i in range(1, g.ntok + 1)]:
            problems.append("%s: token symbolic names differ" % rel)
    for rel in (P + "/blackbirdLexer.interp", C + "/blackbirdLexer.interp"):
        sec = atn.interp_sections(rel)
        if [x for x in sec["rule names"] if x] != lnames:
            problems.append("%s: rule names differ" % rel)
    # the generated listener must offer enter/exit callbacks for every rule and labelled alternative
    src = open(os.path.join(common.REPO, P, "blackbirdListener.py")).read()
    labels = [a["label"] for r in g.prules for a in r["alts"] if a["label"]]
    plain = [r["name"] for r in g.prules if not any(a["label"] for a in r["alts"])]
    for n in labels + plain:
        cap = n[0].upper() + n[1:]
        if "def enter%s(" % cap not in src or "def exit%s(" % cap not in src:
            problems.append("blackbirdListener.py lacks enter/exit%s" % cap)
    rep.cov["artefact_files_compared"] = 16
    for p in problems:
        rep.violation("artefact identity: " + p, {"kind": "identity", "problem": p, "fingerprint": "C14:identity:" + p})
    return not problems


_G = None


def parse_job(job):
    global _G
    from .. import realsyn, g4
    if _G is None:
        _G = g4.Grammar()
    types, expect, variant = job
    text = render.render_tokens(_G, types, variant=variant)
    if text is None or [k["ty"] for k in realsyn.lex(text)] != types:
        return None
    return text, realsyn.parse_verdict(text)


def class_rep(syn):
    reps = []
    for cl in syn.classes:
        pr = [c for c in cl if 33 <= c < 127] or [c for c in cl if c in (32, 9, 10, 13)] or cl
        c = pr[0]
        reps.append("é" if c == 128 else chr(c))
    return reps


def run(rep, tier, seed):
    from .. import realsyn, realrun
    rng = random.Random(seed)
    syn = syntax.Syntax()
    mods = syn.modules()
    identity(rep, syn)

    # 2. lexer: complete product
    r = common.run_tlc("LexProd", "INIT Init\nNEXT Next\nVIEW View\nINVARIANT SameLive\nINVARIANT SameAccepting\nCONSTRAINT Emit\n",
                       generated=mods)
    common.require_ok(r, "LexProd")
    rep.add_tlc(r, "LexProd (lexer ATN x blackbird.g4 lexer rules, complete)")
    rep.cov["lexer_product_exhaustive"] = not r.violated
    rep.cov["char_classes"] = len(syn.classes)
    if r.violated:
        rep.violation("lexer ATN and blackbird.g4 lexer rules differ: %s\n%s" % (r.violated, r.counterexample()[:3000]),
                      {"kind": "lexprod", "invariant": r.violated, "trace": r.counterexample(), "fingerprint": None})
    witnesses = []
    for t in r.tuples("LEXW"):
        import json
        witnesses.append(json.loads(json.loads(t)))

    # 3. parser product up to nesting depth D
    D = 6 if tier == "quick" else 8
    r = common.run_tlc("ParProd", "CONSTANT D = %d\nINIT Init\nNEXT Next\nVIEW View\nINVARIANT SameViability\nINVARIANT SameAcceptance\n" % D,
                       generated=mods, timeout=3400)
    common.require_ok(r, "ParProd")
    rep.add_tlc(r, "ParProd (parser ATN x blackbird.g4 parser rules, nesting depth %d)" % D)
    rep.cov["parser_product_depth"] = D
    if r.violated:
        rep.violation("parser ATN and blackbird.g4 parser rules differ: %s\n%s" % (r.violated, r.counterexample()[:3000]),
                      {"kind": "parprod", "invariant": r.violated, "trace": r.counterexample(), "fingerprint": None})

    # 4a. behaviour of the generated Python lexer, validated by the BBLexer machine
    reps = class_rep(syn)
    texts = set()
    for w in witnesses:
        texts.add("".join(reps[c] for c in w))      # one witness per product transition (state x next class)
    for f in sorted(glob.glob(os.path.join(common.REPO, "examples", "*.xbb"))):
        texts.add(open(f).read())
    frag = ["1", "2.5", "e", "E", "+", "-", "j", "J", ",", ".", " ", "  ", "    ", "\t", "\n", "\r", "\r\n", '"', "q", "q1", "pi", "p",
            "Measure", "MeasureX", "name", "names", "for", "in", "int", "array", "True", "Fals", "#", "x_1", "sqrt", "arcsin", "arcsinh",
            "**", "*", "/", "=", "(", ")", "[", "]", "{", "}", "|", ":", "é", "$", "0"]
    nrand = 600 if tier == "quick" else 6000
    for _ in range(nrand):
        texts.add("".join(rng.choice(frag) for _ in range(rng.randint(1, 9))))
    texts.discard("")
    texts = sorted(texts)
    cases = [(t, realsyn.lex(t)) for t in texts]
    r, verdicts = oracles.lex_oracle(syn, mods, cases)
    rep.add_tlc(r, "LexOracle (token streams of the Python lexer replayed in BBLexer)")
    rep.cov["lexer_streams_validated"] = len(cases)
    rep.cov["traces_validated_against_impl"] += len(cases)
    for (t, toks), ok in zip(cases, verdicts):
        if not ok:
            rep.violation("Python lexer token stream differs from blackbird.g4 (longest match, earliest rule) on %r" % t,
                          {"kind": "lexer", "text": t, "real_tokens": toks, "fingerprint": None})
    rep.sample({"lexer_text": texts[len(texts) // 2], "tokens": [k["ty"] for k in cases[len(texts) // 2][1]]})

    # 4b. behaviour of the generated Python parser on sentences / viable prefixes and one-token extensions, from every rule context
    L = 9 if tier == "quick" else 12
    r, sents = oracles.sentgen(mods, L)
    rep.add_tlc(r, "SentGen (grammar machine in generator mode, prefixes up to %d tokens)" % L)
    g = syn.g
    Lc = 2 if tier == "quick" else 4
    names = [n_ for n_ in syntax.CONTEXTS if n_ != "start"]
    rc, sc = oracles.sentgen(mods, Lc, prefixes=[syntax.context_tokens(g, n_) for n_ in names])
    rep.add_tlc(rc, "SentGen from %d rule contexts (+%d tokens each)" % (len(names), Lc))
    sents += sc
    jobs = []
    for c in sents:
        nxt, acc = set(c["next"]), set(c["acc"])
        for t in range(1, g.EOF):
            if t in g.skipped:
                continue
            if tier == "quick" and t not in nxt and len(c["w"]) < 10 and rng.random() < 0.5:
                continue
            types = c["w"] + [t]
            jobs.append((types, -1 if t in acc else (len(types) if t in nxt else len(c["w"])), rng.randrange(3)))
    res = realrun.pmap(parse_job, jobs, chunk=500)
    npar = 0
    dropped = 0
    for (types, expect, _), rr in zip(jobs, res):
        if rr is None:
            dropped += 1
            continue
        text, got = rr
        npar += 1
        bad = (expect == -1) != (got == -1) or (expect >= 0 and got >= 0 and got < expect)
        if bad:
            rep.violation("Python parser verdict %d, grammar says %d (-1 = sentence, else first bad token) for token types %s"
                          % (got, expect, types), {"kind": "parser", "text": text, "types": types, "expect": expect, "got": got,
                                                   "fingerprint": None})
        elif npar % 5000 == 1:
            rep.sample({"parser_text": text, "grammar_verdict": expect, "parser_verdict": got})
    rep.cov["parser_cases"] = npar
    rep.cov["parser_cases_unrenderable"] = dropped
    rep.cov["traces_validated_against_impl"] += npar
    rep.cov["evaluations"] = len(cases) + npar
    rep.cov["distinct_nontrivial"] = len(cases) + npar
    rep.cov["rule"] = ("lexer: one text per product state and next character class, the examples, random fragment strings; "
                       "parser: every viable prefix found by BFS over the grammar's subset automaton extended by every token type; "
                       "all distinct by construction (set of texts / of token strings)")
    rep.assumptions += ["TLC and the CommunityModules", "ANTLR Python runtime's ATN deserializer (used to decode the shipped ATN)",
                        "harness/g4.py reads the subset of ANTLR grammar syntax used by blackbird.g4",
                        "the C++ lexer/parser are covered at the automaton level only (no ANTLR C++ runtime in the sandbox)",
                        "code points above 127 are one character class (the exporter maps them to 128)"]


def replay(path):
    import json
    from .. import realsyn
    d = json.load(open(path))
    print(json.dumps(d, indent=1)[:3000])
    if d.get("kind") == "parser":
        got = realsyn.parse_verdict(d["text"])
        print("parser verdict now:", got, "expected:", d["expect"])
        return 1 if (d["expect"] == -1) != (got == -1) or (d["expect"] >= 0 and 0 <= got < d["expect"]) else 0
    if d.get("kind") == "lexer":
        print("lexer tokens now:", [k["ty"] for k in realsyn.lex(d["text"])])
    return 1
