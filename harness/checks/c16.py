"""C16 - the dependency graph is an order-respecting DAG of the operations."""
import itertools, json
from .. import common


def build(ops):
    import blackbird, sympy as sym
    from blackbird.listener import RegRefTransform
    bb = blackbird.BlackbirdProgram(name="g", version="1.0")
    for i, o in enumerate(ops):
        d = {"op": o["name"], "modes": list(o["modes"])}
        if o["args"] == "plain":
            d["args"] = [0.5]
            d["kwargs"] = {}
        elif o["args"] == "par":
            d["args"] = [2 * sym.Symbol("t%d" % i) + 0.5]
            d["kwargs"] = {"k": sym.Symbol("t%d" % i)}
            bb._parameters.append("t%d" % i)
        elif o["args"] in ("pos", "kw"):
            r = RegRefTransform(2 * sym.Symbol("q%d" % o["regs"][0]) + 1)
            d["args"] = [r, 1.5] if o["args"] == "pos" else [0.25]
            d["kwargs"] = {"phi": r} if o["args"] == "kw" else {}
        bb._operations.append(d)
    return bb


def check_graph(G, bb, ops, reach_pairs, what):
    """the graph G returned for the program bb, which holds the operations `ops` (specification: reach_pairs, 1-based)"""
    import networkx as nx
    n = len(ops)
    if sorted(G.nodes()) != list(range(n)):
        return "%s: nodes %s, expected one node per operation 0..%d" % (what, sorted(G.nodes()), n - 1)
    for i, o in enumerate(ops):
        nd = G.nodes[i]
        real = bb.operations[i]
        if nd.get("name") != o["name"] or tuple(nd.get("modes", ())) != tuple(o["modes"]):
            return "%s: node %d carries %r/%r, operation is %s on %s" % (what, i, nd.get("name"), nd.get("modes"), o["name"], o["modes"])
        if list(nd.get("args", [])) != list(real.get("args", [])) or dict(nd.get("kwargs", {})) != dict(real.get("kwargs", {})):
            return "%s: node %d arguments %r %r differ from the operation's %r %r" % (what, i, nd.get("args"), nd.get("kwargs"), real.get("args"), real.get("kwargs"))
    for a, b in G.edges():
        if not a < b:
            return "%s: edge %d -> %d does not point from an earlier to a later operation" % (what, a, b)
    if not nx.is_directed_acyclic_graph(G):
        return "%s: the graph has a cycle" % what
    reach = {(a, b) for a in G.nodes() for b in nx.descendants(G, a)}
    want = {(a - 1, b - 1) for a, b in reach_pairs}
    if reach != want:
        return "%s: reachability %s, specification says %s (missing %s, extra %s)" % (what, sorted(reach), sorted(want), sorted(want - reach), sorted(reach - want))
    # every topological order keeps the program order on every mode / register wire
    wires = [set(o["modes"]) | set(o["regs"]) for o in ops]
    for k, order in enumerate(nx.all_topological_sorts(G)):
        if k >= 24:
            break
        pos = {v: p for p, v in enumerate(order)}
        for i in range(n):
            for j in range(i + 1, n):
                if wires[i] & wires[j] and not pos[i] < pos[j]:
                    return "%s: topological order %s puts operation %d after %d although they share a wire" % (what, order, i, j)
    return None


def judge(case):
    from blackbird.utils import to_DiGraph
    ops = case["ops"]
    bb = build(ops)
    try:
        G1 = to_DiGraph(bb)
        G = to_DiGraph(bb)          # converting is read-only: the second graph of the same program is judged
    except BaseException as e:      # noqa: BLE001
        return "bad", "to_DiGraph raised %s: %s" % (type(e).__name__, e)
    if sorted(G1.edges()) != sorted(G.edges()) or dict(G1.nodes(data="modes")) != dict(G.nodes(data="modes")):
        return "bad", "two conversions of the same program differ: edges %s / %s, modes %s / %s" % (
            sorted(G1.edges()), sorted(G.edges()), dict(G1.nodes(data="modes")), dict(G.nodes(data="modes")))
    for i, o in enumerate(ops):
        if list(bb.operations[i]["modes"]) != list(o["modes"]):
            return "bad", "after to_DiGraph operation %d of the program has modes %s, it was built with %s" % (i, bb.operations[i]["modes"], o["modes"])
    why = check_graph(G, bb, ops, case["reach"], "second conversion of the program")
    if why:
        return "bad", why
    cur = bb
    try:
        if bb.parameters:
            # an instance of a template that has been converted before: its graph is the graph of ITS operations
            cur = bb(**{p: 0.25 * (int(p[1:]) + 1) for p in bb.parameters})
            why = check_graph(to_DiGraph(cur), cur, ops, case["reach"], "instance of a template that was converted before")
            if why:
                return "bad", why
            if any(getattr(a, "free_symbols", None) for o in cur.operations for a in o.get("args", [])):
                return "bad", "the instance still holds parameters"
        if case.get("rev_reach") is not None and len(ops) >= 2:
            # the operation list reversed in place after a conversion: the graph of the program as it is now
            cur._operations.reverse()
            rev = list(reversed(ops))
            why = check_graph(to_DiGraph(cur), cur, rev, case["rev_reach"], "after reversing the operation list in place")
            if why:
                return "bad", why
    except BaseException as e:      # noqa: BLE001
        return "bad", "conversion under a history raised %s: %s" % (type(e).__name__, e)
    return "ok", ""


def fingerprint(case, why):
    return None


def run(rep, tier, seed):
    from .. import realrun
    runs = [(3, 3)] if tier == "quick" else [(3, 3), (4, 2)]
    cases = []
    for nops, nw in runs:
        cfg = ("CONSTANT NOps = %d\nCONSTANT NW = %d\nINIT Init\nNEXT Next\nINVARIANT EdgesForward\nINVARIANT ReachIffChain\n"
               "INVARIANT TopoKeepsWireOrder\nCONSTRAINT Emit\n" % (nops, nw))
        r = common.run_tlc("MC_C16", cfg, timeout=3000)
        common.require_ok(r, "MC_C16")
        rep.add_tlc(r, "MC_C16 all programs of <= %d operations over %d wires" % (nops, nw))
        if r.violated:
            raise common.MachineryError("MC_C16: spec-level invariant %s violated\n%s" % (r.violated, r.counterexample()[:2000]))
        cases += r.tagged("CASE")
    # longer programs over more wires, chosen by the harness; TLC (Oracle_C16) checks the specification's invariants on each and
    # computes the reachability relation they are compared with
    import os, random
    rng = random.Random(seed + 4711)
    nsim, lsim, nw = (2000, 10, 5) if tier == "quick" else (30000, 12, 6)
    sim = []
    for _ in range(nsim):
        ops = []
        for _ in range(rng.randrange(4, lsim + 1)):
            modes = rng.sample(range(nw), rng.choice([1, 1, 2, 2, 3]))
            kind = rng.choice(["none", "plain", "par", "pos", "kw", "none"])
            regs = []
            if kind in ("pos", "kw"):
                free = [w for w in range(nw) if w not in modes]
                regs = [rng.choice(free)]
            ops.append({"name": {"none": "G", "plain": "G", "par": "T"}.get(kind, "R"), "modes": modes, "regs": regs, "args": kind})
        sim.append({"ops": ops})
    path = os.path.join(common.scratch(), "c16cases.json")
    with open(path, "w") as fh:
        json.dump(sim, fh)
    r = common.run_tlc("Oracle_C16", "INIT Init\nNEXT Next\nINVARIANT EdgesForward\nINVARIANT ReachIffChain\nCONSTRAINT Emit\n", env={"CASE_FILE": path}, timeout=3000)
    common.require_ok(r, "Oracle_C16")
    rep.add_tlc(r, "Oracle_C16: %d random programs of 4..%d operations over %d wires" % (nsim, lsim, nw))
    if r.violated:
        raise common.MachineryError("Oracle_C16: spec-level invariant %s violated\n%s" % (r.violated, r.counterexample()[:2000]))
    got = {o["k"]: o for o in r.tagged("ORACLE")}
    if len(got) != len(sim):
        raise common.MachineryError("Oracle_C16: %d verdicts for %d cases" % (len(got), len(sim)))
    for i, c in enumerate(sim):
        c["reach"] = got[i + 1]["reach"]
    rep.cov["random_long_programs"] = len(sim)
    cases += sim
    seen = {}
    for c in cases:
        seen.setdefault(json.dumps(c["ops"], sort_keys=True), c)
    cases = list(seen.values())

    def rev_key(c):
        # a template parameter is named after its operation's position: the reversed program is looked up by shape only
        return json.dumps(list(reversed(c["ops"])), sort_keys=True)
    for c in cases:
        r2 = seen.get(rev_key(c))
        c["rev_reach"] = r2["reach"] if r2 else None
    res = realrun.pmap(judge, cases)
    nb = 0
    for c, (st, why) in zip(cases, res):
        if st == "bad":
            nb += 1
            rep.violation("%s | operations %s" % (why, [(o["name"], o["modes"], o["regs"], o["args"]) for o in c["ops"]]),
                          {"case": c, "reason": why, "fingerprint": fingerprint(c, why)})
    for i in (7, len(cases) // 2, len(cases) - 3):
        rep.sample({"operations": cases[i]["ops"], "spec_reach": cases[i]["reach"], "status": res[i][0]})
    rep.cov["traces_validated_against_impl"] = len(cases)
    rep.cov["evaluations"] = len(cases)
    rep.cov["distinct_nontrivial"] = sum(1 for c in cases if len(c["ops"]) >= 2)
    rep.cov["exhaustive"] = True
    rep.cov["rule"] = ("all operation sequences up to the bound over a menu of 41 operations on 3 wires (1..3 modes in varying order, optional measured-"
                       "register dependency in positional or keyword position, argument-less operations, template parameters); non-trivial = at least 2 "
                       "operations; compared: node set and labels, edge direction, acyclicity, the reachability relation, up to 24 topological orders; "
                       "each program converted twice, as an instance of an already converted template, and again after its operation list was "
                       "reversed in place (expected graph: TLC's for the reversed sequence)")
    rep.cov["history_variants"] = {"instance_of_converted_template": sum(1 for c in cases if any(o["args"] == "par" for o in c["ops"])),
                                   "reversed_in_place": sum(1 for c in cases if c.get("rev_reach") is not None and len(c["ops"]) >= 2)}


def replay(path):
    d = json.load(open(path))
    st, why = judge(d["case"])
    print(d["case"]["ops"])
    print(st, why)
    return 1 if st == "bad" else 0
