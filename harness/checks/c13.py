"""C13 - read-only operations leave programs unchanged; instances are independent."""
import json
from .. import common

T_TEXT = ("name T\nversion 1.0\ntarget X8_01 (shots=10, flags=[1, 2])\n\nfloat array M =\n    {b}, 2\nfloat v = {b}\nfloat array W[1, 2] =\n    {wv}\nfloat array Q =\n    3, 4\n"
          "G({a}, 2*q1) | 0\nVac | 1\nK(l=[1, 2]) | 0\nK2(W) | 1\n")
P_TEXT = "name P\nversion 1.0\n\nint array N =\n    3, 4\nVac | 0\nH(5, 2*q0) | 1\n"


def digest(p):
    """deep structural digest of everything observable of a program, plus its serialisation"""
    import numpy as np
    import blackbird
    if isinstance(p, np.ndarray):           # the caller's own array
        return (("arr", str(p.dtype), p.shape, tuple(p.flatten().tolist())),)

    def d(x):
        if isinstance(x, dict):
            return ("dict", tuple((k, d(v)) for k, v in x.items()))
        if isinstance(x, (list, tuple)):
            return ("list", tuple(d(v) for v in x))
        if isinstance(x, set):
            return ("set", tuple(sorted(d(v) for v in x)))
        if isinstance(x, np.ndarray):
            return ("arr", str(x.dtype), x.shape, tuple(d(v) for v in x.flatten().tolist()))
        if type(x).__name__ == "RegRefTransform":
            return ("rrt", str(x.expr), tuple(x.regrefs), x.func_str)
        return (type(x).__name__, repr(x))
    try:
        text = blackbird.dumps(p)
    except BaseException as e:      # noqa: BLE001
        text = "dumps raised %s" % type(e).__name__
    return (d(p._operations), d(p._var), d(p._target), d(p._type), d([str(s) for s in p._parameters]), d(p._modes), p._name, p._version, text)


def value_ok(spec, real):
    import sympy as sym
    import numpy as np
    k = spec["k"]
    if k == "num":
        return isinstance(real, (int, float, np.number)) and float(real) == float(spec["n"])
    if k == "sym":
        return isinstance(real, sym.Expr) and str(real) == spec["p"]
    if k == "rrt":
        return type(real).__name__ == "RegRefTransform" and list(real.regrefs) == (list(spec["regs"]) if "regs" in spec else [spec["r"]])
    if k == "list":
        return isinstance(real, list) and len(real) == len(spec["xs"]) and all(value_ok(a, b) for a, b in zip(spec["xs"], real))
    if k == "arr":
        rows = spec["rows"]
        return isinstance(real, np.ndarray) and real.shape == (len(rows), len(rows[0])) and all(
            value_ok(rows[r][c], real[r][c]) for r in range(len(rows)) for c in range(len(rows[0])))
    return False


def content_ok(spec, p):
    """the specification's content of an object against the real program"""
    if len(spec["ops"]) != len(p.operations):
        return "%d operations, specification says %d" % (len(p.operations), len(spec["ops"]))
    for i, (s, o) in enumerate(zip(spec["ops"], p.operations)):
        if s["name"] != o["op"] or list(s["modes"]) != [int(m) for m in o["modes"]]:
            return "operation %d is %s %s, specification says %s %s" % (i, o["op"], o["modes"], s["name"], s["modes"])
        if s["hasargs"] != ("args" in o):
            return "operation %d (%s) %s an argument list, specification says %s" % (i, s["name"], "has" if "args" in o else "has no", s["hasargs"])
        if s["hasargs"]:
            if not value_ok(s["args"], o["args"]):
                return "operation %d (%s) arguments %r, specification says %s" % (i, s["name"], o["args"], s["args"])
            kw = s["kw"]["items"]
            if [x["key"] for x in kw] != list(o["kwargs"].keys()) or not all(value_ok(x["v"], o["kwargs"][x["key"]]) for x in kw):
                return "operation %d (%s) keyword arguments %r, specification says %s" % (i, s["name"], o["kwargs"], kw)
    vs = spec["vars"]["items"]
    if [x["key"] for x in vs] != list(p.variables.keys()) or not all(value_ok(x["v"], p.variables[x["key"]]) for x in vs):
        return "variables %r, specification says %s" % (p.variables, vs)
    os_ = spec["opts"]["items"]
    ro = p.target.get("options") or {}
    if [x["key"] for x in os_] != list(ro.keys()) or not all(value_ok(x["v"], ro[x["key"]]) for x in os_):
        return "target options %r, specification says %s" % (ro, os_)
    if set(spec["params"]) != set(p.parameters):
        return "parameters %s, specification says %s" % (sorted(p.parameters), sorted(spec["params"]))
    return None


def run_history(case):
    import blackbird, warnings
    from blackbird.utils import to_DiGraph, match_template
    warnings.simplefilter("ignore")
    import numpy as np
    objs = {"T": blackbird.loads(T_TEXT), "P": blackbird.loads(P_TEXT), "E": np.array([[6.0, 7.0]])}
    for step, a in enumerate(case["hist"]):
        before = {n: digest(o) for n, o in objs.items()}
        act = a["act"]
        try:
            if act == "dumps":
                try:
                    blackbird.dumps(objs[a["o"]])
                except ValueError:      # an array argument that still holds parameters / objects cannot be written: a legitimate answer;
                    pass                # what is checked is that asking left every object unchanged
            elif act == "read":
                o = objs[a["o"]]
                _ = (o.name, o.version, o.modes, o.target, o.programtype, o.operations, o.parameters, o.variables, o.is_template(), len(o))
            elif act == "digraph":
                to_DiGraph(objs[a["o"]])
            elif act == "match":
                try:
                    match_template(objs[a["t"]], objs[a["p"]])
                except Exception:      # noqa: BLE001   a mismatch is a legitimate answer; purity is what is checked
                    pass
            elif act == "call":
                # the whole-array parameter wv always receives the caller's array object E itself
                objs[a["new"]] = objs[a["t"]](wv=objs["E"], **{k: v for k, v in a["env"].items() if not k.startswith("wv_")})
            elif act == "mutate":
                o = objs[a["o"]]
                i = a["i"] - 1
                if a["kind"] == "append_arg":
                    o.operations[i]["args"].append(99)
                elif a["kind"] == "set_kw":
                    o.operations[i]["kwargs"]["zz"] = 7
                elif a["kind"] == "array_elem":
                    o.variables["M" if i == 0 else "Q"][0][0] = -5
                elif a["kind"] == "del_var":
                    del o.variables["v"]
                elif a["kind"] == "opt_replace":
                    o.target["options"]["flags"][0] = -8
                elif a["kind"] == "set_var":
                    o.variables["newvar"] = 1
                elif a["kind"] == "rename_op":
                    o.operations[0]["op"] = "Renamed"
                elif a["kind"] == "set_option":
                    o.target["options"]["shots"] = 99
                elif a["kind"] == "arg_array_elem":
                    arr = [x for x in o.operations[i]["args"] if isinstance(x, np.ndarray)][0]
                    arr[0][0] = 99
                elif a["kind"] == "rrt_regref":
                    t = o.operations[0]["args"][1]
                    if i == 0:
                        t.regrefs[0] += 3
                    else:
                        t.regrefs.append(7)
                elif a["kind"] == "append_option_list":
                    o.target["options"]["flags"].append(3)
        except BaseException as e:      # noqa: BLE001
            return "bad", "step %d %s raised %s: %s" % (step + 1, a, type(e).__name__, str(e)[:150])
        after = {n: digest(o) for n, o in objs.items()}
        target = a.get("o") if act == "mutate" else None
        for n in before:
            if n != target and before[n] != after[n]:
                diff = [i for i in range(len(before[n])) if before[n][i] != after[n][i]]
                what = ["operations", "variables", "target", "type", "parameters", "modes", "name", "version", "serialisation"] if n != "E" else ["the caller's array"]
                return "bad", "step %d %s changed object %s (%s); before:\n%s\nafter:\n%s" % (
                    step + 1, a, n, ", ".join(what[i] for i in diff), before[n][-1], after[n][-1])
    for n, spec in case["final"].items():
        if n == "E":
            continue
        why = content_ok(spec, objs[n])
        if why:
            return "bad", "after the history object %s: %s" % (n, why)
    return "ok", ""


def fingerprint(case, why):
    return None


def run(rep, tier, seed):
    from .. import realrun
    depth = 3 if tier == "quick" else 4
    base = ("CONSTANT Depth = %d\nCONSTANT MaxInst = 2\nCONSTANT DiGraphFillsMissingArgs = %s\nCONSTANT CallDeepCopies = %s\n"
            "INIT Init\nNEXT Next\nINVARIANT Independent\nPROPERTY Pure\nPROPERTY OnlyTargetChanges\n")
    r = common.run_tlc("MC_C13", base % (depth, "FALSE", "TRUE") + "CONSTRAINT Emit\n", timeout=3000)
    common.require_ok(r, "MC_C13")
    rep.add_tlc(r, "MC_C13 all API histories of length %d over a template, a program and up to 2 instances" % depth)
    if r.violated:
        raise common.MachineryError("MC_C13: the intended specification violates %s" % r.violated)
    teeth = {}
    for name, fill, deep, inv in (("DiGraphFillsMissingArgs", "TRUE", "TRUE", "Pure"), ("shallow instances", "FALSE", "FALSE", "Independent")):
        t = common.run_tlc("MC_C13", base % (3, fill, deep), timeout=3000)
        teeth[name] = inv in t.violated
        if inv not in t.violated:
            raise common.MachineryError("MC_C13 teeth run '%s' found no counterexample for %s" % (name, inv))
    rep.cov["teeth_counterexamples_found"] = teeth
    seen = {}
    for c in r.tagged("HIST"):
        seen.setdefault(json.dumps(c["hist"], sort_keys=True), c)
    # longer histories: random walks of the same model (3 instances), the action properties checked on every step
    dl = 7 if tier == "quick" else 10
    rs = common.run_tlc("MC_C13", (base % (dl, "FALSE", "TRUE")).replace("MaxInst = 2", "MaxInst = 3") + "CONSTRAINT Emit\n", timeout=3000, workers=4,
                        simulate="num=%d" % (25 if tier == "quick" else 150), extra=["-depth", str(dl + 2), "-seed", str(seed + 13)])
    common.require_ok(rs, "MC_C13 (random walks)")
    if rs.violated:
        raise common.MachineryError("MC_C13 (random walks): the intended specification violates %s" % rs.violated)
    rep.add_tlc(rs, "MC_C13 random API histories of length %d, up to 3 instances (simulation)" % dl)
    nlong = 0
    for c in rs.tagged("HIST"):
        k = json.dumps(c["hist"], sort_keys=True)
        if k not in seen:
            seen[k] = c
            nlong += 1
    rep.cov["long_histories"] = nlong
    cases = list(seen.values())
    res = realrun.pmap(run_history, cases, chunk=20)
    for c, (st, why) in zip(cases, res):
        if st == "bad":
            rep.violation("%s | history %s" % (why, c["hist"]), {"case": c, "reason": why, "fingerprint": fingerprint(c, why)})
    rep.sample({"history": cases[len(cases) // 2]["hist"], "status": res[len(cases) // 2][0]})
    rep.cov["traces_validated_against_impl"] = len(cases)
    rep.cov["evaluations"] = len(cases)
    rep.cov["distinct_nontrivial"] = sum(1 for c in cases if any(a["act"] in ("call", "mutate", "digraph", "match") for a in c["hist"]))
    rep.cov["rule"] = ("every sequence of %d actions (dumps, attribute reads, to_DiGraph, match_template, template calls with 2 environments creating up to "
                       "2 instances, 10 kinds of mutation of an instance (argument list, keyword dict, element of an array variable with and without parameters, variable dict (entry added / removed), operation name, target option, list inside a target option (appended / element replaced), register list of a feed-forward argument)) over a template with an argument-less operation, a feed-forward argument, a list keyword, a parameterised "
                       "array and scalar variable, and a plain program; after every action a deep digest (structure + dumps text) of every live object" % depth)


def replay(path):
    d = json.load(open(path))
    st, why = run_history(d["case"])
    print(d["case"]["hist"])
    print(st, why)
    return 1 if st == "bad" else 0
