"""C02 - loading a script yields exactly the program the script denotes."""
import json
from .. import common, loadcheck


def fingerprint(case, d):
    return None


def doc_snippets():
    """every literal block of the documentation (doc/**/*.rst, README.rst), as written and - for fragments - after a minimal
    metadata block; blocks that are not Blackbird do not parse and are skipped by the caller like any ungrammatical text"""
    import glob, os, textwrap
    out = []
    files = sorted(glob.glob(os.path.join(common.REPO, "doc", "**", "*.rst"), recursive=True)) + [os.path.join(common.REPO, "README.rst")]
    for f in files:
        try:
            lines = open(f, encoding="utf-8", errors="replace").read().split("\n")
        except OSError:
            continue
        i = 0
        while i < len(lines):
            ln = lines[i]
            if ln.strip().startswith(".. code-block::") or ln.rstrip().endswith("::"):
                ind = len(ln) - len(ln.lstrip())
                j = i + 1
                blk = []
                while j < len(lines) and (not lines[j].strip() or len(lines[j]) - len(lines[j].lstrip()) > ind):
                    blk.append(lines[j])
                    j += 1
                body = textwrap.dedent("\n".join(blk)).strip("\n")
                if body.strip():
                    out.append(body + "\n")
                    if not body.lstrip().startswith("name"):
                        out.append("name doc\nversion 1.0\n" + body + "\n")
                        out.append("name doc\nversion 1.0\ntype tdm (temporal_modes=2)\n" + body + "\n")
                i = j
            else:
                i += 1
    return out


def real_world(rep):
    """The repository's example scripts and every script text its own test-suite parses: TLC (Trace_Load) is the oracle for the
    program each denotes, and validates the trace of listener callbacks recorded from the real load."""
    import glob, os, subprocess, tempfile
    from .. import absyn, realrun, tracer, oracle_load, progcmp, values
    import blackbird
    out = os.path.join(common.scratch(), "snippets.json")
    p = subprocess.run([common.PY, "-m", "harness.capture_snippets", common.REPO, out], cwd=common.VERIF, env=common.repo_python_env(),
                       stdout=subprocess.PIPE, stderr=subprocess.STDOUT, text=True)
    texts = []
    if p.returncode == 0 and os.path.exists(out):
        texts = [(None, t) for t in json.load(open(out))]
    for f in sorted(glob.glob(os.path.join(common.REPO, "examples", "*.xbb"))):
        texts.append((f, open(f).read()))
    ndoc = 0
    for t in doc_snippets():
        if (None, t) not in texts:
            texts.append((None, t))
            ndoc += 1
    rep.cov["documentation_code_blocks_tried"] = ndoc
    cases = []
    skipped = 0
    for path, text in texts:
        try:
            s = absyn.tree2abs(realrun.parse_tree(text), None)
        except BaseException:      # noqa: BLE001   ungrammatical or unsupported text: the syntax stage is C10's subject
            skipped += 1
            continue
        if s["incs"] and path is None:
            skipped += 1
            continue
        atoms = []
        s2 = oracle_load.shrink(s, atoms)
        files = []
        ok = True
        for inc in s2["incs"]:
            fp = os.path.join(os.path.dirname(path), inc)
            try:
                files.append({"path": {"dirs": ["ex%d" % len(cases)], "file": inc},
                              "s": oracle_load.shrink(absyn.tree2abs(realrun.parse_tree(open(fp).read()), None), atoms)})
            except BaseException:      # noqa: BLE001
                ok = False
        if not ok or any(f["s"]["incs"] for f in files):
            skipped += 1
            continue
        s2["incs"] = [{"abs": False, "dirs": [], "file": inc} for inc in s2["incs"]]
        with tracer.recording() as ev:
            if path:
                try:
                    real = ("ok", blackbird.load(path))
                except BaseException as e:      # noqa: BLE001
                    real = ("raise", type(e).__name__, str(e.args[0]) if e.args else str(e))
            else:
                real = realrun.loads(text)
        cases.append(dict(s=s2, files=files, base=["ex%d" % len(cases)], events=list(ev), real=real, atoms=atoms, text=text))
    if not cases:
        return
    r, res = oracle_load.run(cases)
    rep.add_tlc(r, "Trace_Load (oracle + trace validation for %d real scripts: examples and test-suite snippets)" % len(cases))
    verdicts = {}
    for c, o in zip(cases, res):
        verdicts[o["trace"]] = verdicts.get(o["trace"], 0) + 1
        values.EXTRA_ATOMS = dict(enumerate(c["atoms"]))
        try:
            why = progcmp.cmp_outcome(o["out"], c["real"], sections=("meta", "ops", "modes", "params"), strict_cls=False)
        finally:
            values.EXTRA_ATOMS = {}
        if why:
            rep.violation("real script: %s | trace verdict %s at event %d | script:\n%s" % (why, o["trace"], o["at"], c["text"]),
                          {"text": c["text"], "reason": why, "trace": o["trace"], "fingerprint": None})
        elif o["trace"] not in ("accepted", "unspecified", "none"):
            rep.notes.append("trace of a real load left the listener machine (%s at event %d) although the outcome agrees: %r" % (o["trace"], o["at"], c["text"][:120]))
    # the binding is not vacuous: corrupted copies of accepted traces (an event dropped, an operation count changed,
    # two events swapped, an exception invented) must be rejected by the trace specification
    import copy
    good = [c for c, o in zip(cases, res) if o["trace"] == "accepted" and len(c["events"]) >= 6][:8]
    corrupt = []
    for c in good:
        ev = c["events"]
        idx = [i for i, e in enumerate(ev) if e["ev"] == "exitStatement"]
        if not idx:
            continue
        i = idx[len(idx) // 2]
        for kind in ("drop", "nops", "swap", "exc"):
            e2 = copy.deepcopy(ev)
            if kind == "drop":
                del e2[i]
            elif kind == "nops":
                e2[i]["nops"] += 1
            elif kind == "swap":
                e2[i], e2[i - 1] = e2[i - 1], e2[i]
                if e2[i]["ev"] == e2[i - 1]["ev"] and e2[i]["nops"] == e2[i - 1]["nops"]:
                    continue
            else:
                e2[i]["exc"] = "ValueError"
            corrupt.append(dict(c, events=e2, corruption=kind))
    if corrupt:
        r2, res2 = oracle_load.run(corrupt)
        rep.add_tlc(r2, "Trace_Load on %d corrupted traces (must be rejected)" % len(corrupt))
        accepted = [c["corruption"] for c, o in zip(corrupt, res2) if o["trace"] == "accepted"]
        rep.cov["corrupted_traces_rejected"] = len(corrupt) - len(accepted)
        if accepted:
            raise common.MachineryError("trace validation is vacuous: corrupted traces accepted (%s)" % accepted)
    rep.cov["real_scripts"] = len(cases)
    rep.cov["real_scripts_skipped"] = skipped
    rep.cov["trace_verdicts"] = verdicts
    rep.cov["traces_validated_against_impl"] += len(cases)
    rep.cov["evaluations"] += len(cases)
    rep.cov["distinct_nontrivial"] += sum(1 for o in res if o["out"]["k"] != "unspec")
    rep.sample({"real_script": cases[-1]["text"][-300:], "events": [e["ev"] for e in cases[-1]["events"]][:12], "trace_verdict": res[-1]["trace"]})


def random_scripts(rep, tier, seed):
    """random scripts far beyond the menus, TLC (Trace_Load) as oracle and trace validator"""
    from .. import randcases, progcmp, values
    n = 400 if tier == "quick" else 4000
    cases = randcases.build(seed + 5, n)
    randcases.judge(rep, cases, "Trace_Load (oracle + trace validation for %d random scripts)" % n)
    verdicts = {}
    nspec = 0
    for c in cases:
        verdicts[c["trace"]] = verdicts.get(c["trace"], 0) + 1
        if c["out"]["k"] != "unspec":
            nspec += 1
        values.EXTRA_ATOMS = dict(enumerate(c["atoms"]))
        try:
            why = progcmp.cmp_outcome(c["out"], c["real"], sections=("meta", "ops", "modes", "params"), strict_cls=False)
        finally:
            values.EXTRA_ATOMS = {}
        if why:
            rep.violation("random script: %s | trace verdict %s at event %d | script:\n%s" % (why, c["trace"], c["at"], c["text"]),
                          {"text": c["text"], "reason": why, "trace": c["trace"], "fingerprint": None})
        elif c["trace"] not in ("accepted", "unspecified", "none"):
            rep.notes.append("trace of a random script left the listener machine (%s at event %d) although the outcome agrees" % (c["trace"], c["at"]))
    rep.cov["random_scripts"] = n
    rep.cov["random_scripts_specified"] = nspec
    rep.cov["random_trace_verdicts"] = verdicts
    why = {}
    for c in cases:
        if c["out"]["k"] == "unspec":
            w = c["out"].get("why", "?")
            why[w] = why.get(w, 0) + 1
    rep.cov["random_unspecified_by_place_in_spec"] = dict(sorted(why.items(), key=lambda kv: -kv[1]))
    rep.cov["traces_validated_against_impl"] += n
    rep.cov["evaluations"] += n
    rep.cov["distinct_nontrivial"] += nspec
    rep.sample({"random_script": cases[3]["text"], "oracle_outcome": cases[3]["out"]["k"], "trace_verdict": cases[3]["trace"]})


def run(rep, tier, seed):
    N = 2 if tier == "quick" else 3
    cases = loadcheck.explore(rep, "MC_C02", N)
    sim = loadcheck.explore(rep, "MC_C02", 8, simulate={"num": 300 if tier == "quick" else 3000, "depth": 400},
                            invariants=loadcheck.INVARIANTS, props=[])
    cases += sim
    cases += loadcheck.explore(rep, "MC_C02", 4, items="Redecl", metas="Metas", label="MC_C02 an indexed array declared again (4 items)", props=[])
    loadcheck.replay_cases(rep, cases, seed, sections=("meta", "ops", "modes"), fingerprint=fingerprint, strict_cls=False)
    real_world(rep)
    random_scripts(rep, tier, seed)
    rep.cov["rule"] = ("scripts built item by item from a menu of 20 body items (typed scalars, arrays, statements with every argument/bracket "
                       "style, Measure*, range and list loops) x 3 metadata variants: exhaustive up to N=%d items, random walks up to 8 items; "
                       "distinct scripts; non-trivial = the specification gives a program or a refusal (not 'unspecified'); plus the repository's examples "
                       "and the script texts of its test-suite, with TLC as oracle and validator of the recorded listener trace" % N)
    rep.assumptions += ["harness/absyn.render (checked per case: the real parse tree of the rendered text converts back to the abstract script)",
                        "numbers compared by kind (bool/int/float/complex) and value; keyword arguments as a mapping"]


def replay(path):
    d = json.load(open(path))
    st, det = loadcheck.judge_load(d["case"])
    print(det["text"])
    print(st, det.get("reason"), det.get("observed"))
    return 1 if st == "bad" else 0
