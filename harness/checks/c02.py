"""C02 - loading a script yields exactly the program the script denotes."""
import json
from .. import common, loadcheck


def fingerprint(case, d):
    return None


def run(rep, tier, seed):
    N = 2 if tier == "quick" else 3
    cases = loadcheck.explore(rep, "MC_C02", N)
    sim = loadcheck.explore(rep, "MC_C02", 8, simulate={"num": 300 if tier == "quick" else 3000, "depth": 400},
                            invariants=loadcheck.INVARIANTS, props=[])
    cases += sim
    loadcheck.replay_cases(rep, cases, seed, sections=("meta", "ops", "modes"), fingerprint=fingerprint, strict_cls=False)
    rep.cov["rule"] = ("scripts built item by item from a menu of 20 body items (typed scalars, arrays, statements with every argument/bracket "
                       "style, Measure*, range and list loops) x 3 metadata variants: exhaustive up to N=%d items, random walks up to 8 items; "
                       "distinct scripts; non-trivial = the specification gives a program or a refusal (not 'unspecified')" % N)
    rep.assumptions += ["harness/absyn.render (checked per case: the real parse tree of the rendered text converts back to the abstract script)",
                        "numbers compared by kind (bool/int/float/complex) and value; keyword arguments as a mapping"]


def replay(path):
    d = json.load(open(path))
    st, det = loadcheck.judge_load(d["case"])
    print(det["text"])
    print(st, det.get("reason"), det.get("observed"))
    return 1 if st == "bad" else 0
