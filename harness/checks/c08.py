"""C08 - measured-register arguments become transforms computing the written formula."""
import json
from .. import common, seeds


def fingerprint(case, why):
    return None


def run(rep, tier, seed):
    depth = 2 if tier == "quick" else 3
    cfg = ("CONSTANT Depth = %d\nCONSTANT ClearTablesAtLoadStart = TRUE\nCONSTANT FS <- NoFS8\nINIT Init\nNEXT Next\n"
           "INVARIANT TransformIffRegisters\nINVARIANT PlainStaysPlain\nINVARIANT OtherArgPlain\nINVARIANT LoopOnePerIteration\nCONSTRAINT Emit\n" % depth)
    r = common.run_tlc("MC_C08", cfg, timeout=3300)
    common.require_ok(r, "MC_C08")
    rep.add_tlc(r, "MC_C08 register expressions up to depth %d in positional and keyword position" % depth)
    if r.violated:
        raise common.MachineryError("MC_C08: spec-level invariant %s violated\n%s" % (r.violated, r.counterexample()[:2000]))
    cases = r.tagged("CASE")
    if depth >= 3:          # the full family is large: all of depth <= 1 and the representative family, a seeded sample of the rest
        import random
        rng = random.Random(seed)
        cases = [c for i, c in enumerate(cases) if rng.random() < 0.12]
    for i, c in enumerate(cases):
        c["seed"] = seed * 13 + i
        c["sections"] = ["ops"]
    hs = seeds.hash_seeds(seed, 4 if tier == "quick" else 16)
    res = seeds.run_under_seeds(cases, hs)
    nb = 0
    orders = set()
    for i, c in enumerate(cases):
        for h in hs:
            rr = res[h][i]
            if rr["why"]:
                nb += 1
                rep.violation("PYTHONHASHSEED=%s: %s | %s" % (h, rr["why"], rr["text"].splitlines()[-1]),
                              {"case": c, "hashseed": h, "text": rr["text"], "reason": rr["why"], "fingerprint": fingerprint(c, rr["why"])})
                break
    rep.sample({"script": res[hs[0]][len(cases) // 2]["text"], "spec_argument": cases[len(cases) // 2]["out"]["prog"]["ops"][1]})
    rep.cov["hash_seeds"] = hs
    rep.cov["traces_validated_against_impl"] = len(cases) * len(hs)
    rep.cov["evaluations"] = len(cases) * len(hs)
    rep.cov["distinct_nontrivial"] = sum(1 for c in cases if c["nregs"] >= 1)
    rep.cov["by_number_of_registers"] = {str(k): sum(1 for c in cases if c["nregs"] == k) for k in range(5)}
    rep.cov["rule"] = ("expressions over registers q0, q1, q2, q10, q12, int/float constants and a declared variable: all of depth <= 1 and a "
                       "representative depth-2 family (thorough: a seeded 12%% sample of the full depth-2 family), '-' and '/' only between operands over "
                       "disjoint registers (no identical cancellation); positional and keyword position; each under several PYTHONHASHSEEDs because the "
                       "listed register order is hash dependent; checked: set(regrefs) = registers written, no duplicates, func(*values in listed order) "
                       "= value of the written expression at 3 sample assignments")
    rep.assumptions += ["sample values in (0.3, 1.7): away from poles of the generated rational expressions"]


def replay(path):
    d = json.load(open(path))
    c = d["case"]
    res = seeds.run_under_seeds([c], [d["hashseed"]])
    rr = res[d["hashseed"]][0]
    print(rr["text"])
    print(rr["why"] or "agrees now")
    return 1 if rr["why"] else 0
