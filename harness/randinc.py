"""Random include trees (C07): library scripts in several directories, libraries that include and call other libraries, main
scripts that include them by relative and absolute paths and call them (well-formed and ill-formed calls).  No expectation is
built in: TLC (Trace_Load.tla) is the oracle, first for each library alone (its modes and parameters decide how it may be
called), then for the main scripts with their files."""
import copy, os, random, shutil, tempfile
from . import common, absyn, randgen, oracle_load

NO = {"name": "", "hasargs": False, "args": [], "kw": []}


def lib_script(g, rng, name, allow_params=True):
    s = g.script(size=rng.choice([1, 2, 2, 3, 4]))
    s["name"] = name
    s["type"] = dict(NO)
    s["target"] = dict(NO) if rng.random() < 0.7 else s["target"]
    return s


def call_stmt(g, rng, lib, main_params):
    """a call of library `lib` (dict with name, modes, params): mostly well formed, sometimes with exactly one defect"""
    nm, nmodes, params = lib["name"], len(lib["modes"]), list(lib["params"])
    modes = rng.sample(range(0, max(9, nmodes + 3)), nmodes) if rng.random() < 0.9 else [rng.randrange(0, 4) for _ in range(nmodes)]
    kw = []
    rng.shuffle(params)
    for p in params:
        c = rng.random()
        if c < 0.15 and main_params:
            v = {"t": "par", "p": rng.choice(main_params)}
        elif c < 0.3:
            v = randgen.fix({"t": "neg", "a": g.number(("int", "float"))})
        else:
            v = randgen.fix(g.expr(randgen.Ctx(), 1))
        kw.append({"k": p, "v": v})
    fault = rng.random()
    if fault < 0.04:
        modes = modes + [max(modes + [8]) + 1]
    elif fault < 0.08 and len(modes) > 1:
        modes = modes[:-1]
    elif fault < 0.11 and kw:
        kw = kw[:-1]
    elif fault < 0.14:
        kw = kw + [{"k": "zz", "v": randgen.I(1)}]
    st = {"t": "stmt", "op": nm, "hasargs": bool(kw), "args": [], "kw": kw, "modes": [randgen.I(m) for m in modes],
          "br": "sq" if len(modes) > 1 else rng.choice(["none", "sq"])}
    return st


def inc_record(rng, from_dirs, to_dirs, file):
    """an include line written in the file that lives in from_dirs, naming the file in to_dirs: relative (via .. where needed) or absolute"""
    if rng.random() < 0.2:
        return {"abs": True, "dirs": list(to_dirs), "file": file}
    common_len = 0
    while common_len < min(len(from_dirs), len(to_dirs)) and from_dirs[common_len] == to_dirs[common_len]:
        common_len += 1
    rel = [".."] * (len(from_dirs) - common_len) + list(to_dirs[common_len:])
    return {"abs": False, "dirs": rel, "file": file}


def oracle(cases):
    r, res = oracle_load.run(cases)
    return r, res


def build(rep, seed, n, label):
    """-> list of cases {s, files, base, out, trace, at, events(real), real, text, root-independent}; runs the real loads"""
    from . import realrun, tracer
    import blackbird
    rng = random.Random(seed)
    g = randgen.Gen(rng)
    trees = []
    # ---- level-0 libraries
    lib0_cases = []
    for i in range(n):
        R = "R%d" % i
        dirs_pool = [[R, "w"], [R, "w", "sub"], [R, "lib"]]
        libs = []
        for j in range(rng.choice([1, 2, 2, 3])):
            d = rng.choice(dirs_pool)
            s = lib_script(g, rng, "lib%d" % j)
            libs.append({"name": "lib%d" % j, "dirs": d, "file": "lib%d.xbb" % j if rng.random() < 0.8 else "common.xbb", "s": s, "level": 0})
        # two libraries written into the same file name of the same directory would overwrite each other
        seen = set()
        libs = [l for l in libs if (tuple(l["dirs"]), l["file"]) not in seen and not seen.add((tuple(l["dirs"]), l["file"]))]
        trees.append({"R": R, "libs": libs})
        for l in libs:
            atoms = []
            l["s_tlc"] = oracle_load.shrink(l["s"], atoms)
            l["atoms"] = atoms
            lib0_cases.append((l, dict(s=l["s_tlc"], files=[], base=l["dirs"], events=[])))
    r, res = oracle([c for _, c in lib0_cases])
    rep.add_tlc(r, "Trace_Load: %d random library scripts alone (their modes and parameters decide how they may be called)" % len(lib0_cases))
    for (l, _), o in zip(lib0_cases, res):
        l["out"] = o["out"]
    # ---- level-1 libraries: include one level-0 library and call it
    lib1_cases = []
    for t in trees:
        usable = [l for l in t["libs"] if l["out"]["k"] == "ok" and l["out"]["prog"]["modes"] and not l["atoms"]]
        if usable and rng.random() < 0.5:
            inner = rng.choice(usable)
            d = rng.choice([[t["R"], "w"], [t["R"], "w", "sub"], [t["R"], "lib"]])
            s = lib_script(g, rng, "outer")
            s["incs"] = [inc_record(rng, d, inner["dirs"], inner["file"])]
            callee = {"name": inner["name"], "modes": inner["out"]["prog"]["modes"], "params": inner["out"]["prog"]["params"]}
            pos = rng.randrange(len(s["body"]) + 1)
            s["body"].insert(pos, call_stmt(g, rng, callee, []))
            if rng.random() < 0.4:
                s["body"].append(call_stmt(g, rng, callee, []))
            if (tuple(d), "outer.xbb") not in {(tuple(l["dirs"]), l["file"]) for l in t["libs"]}:
                atoms = []
                l1 = {"name": "outer", "dirs": d, "file": "outer.xbb", "s": s, "level": 1, "inner": inner, "s_tlc": oracle_load.shrink(s, atoms), "atoms": atoms}
                t["libs"].append(l1)
                lib1_cases.append((l1, dict(s=l1["s_tlc"], files=[{"path": {"dirs": inner["dirs"], "file": inner["file"]}, "s": inner["s_tlc"]}], base=d, events=[])))
    if lib1_cases:
        r, res = oracle([c for _, c in lib1_cases])
        rep.add_tlc(r, "Trace_Load: %d random libraries that include and call another library, alone" % len(lib1_cases))
        for (l, _), o in zip(lib1_cases, res):
            l["out"] = o["out"]
    # ---- main scripts
    cases = []
    for t in trees:
        W = [t["R"], "w"]
        libs = [l for l in t["libs"] if l["out"]["k"] != "unspec" and not l["atoms"]]
        if not libs:
            continue
        chosen = rng.sample(libs, rng.randrange(1, len(libs) + 1))
        if rng.random() < 0.85:
            chosen = [l for l in chosen if l["out"]["k"] == "ok"] or chosen
        main = g.script(size=rng.choice([0, 1, 2, 3]))
        main["name"] = "main"
        main["type"] = dict(NO)
        main["incs"] = [inc_record(rng, W, l["dirs"], l["file"]) for l in chosen]
        if rng.random() < 0.15:
            main["incs"].append(copy.deepcopy(main["incs"][0]))          # a repeated include line
        visible = {}
        for l in chosen:
            if l["out"]["k"] == "ok":
                visible[l["name"]] = l
                if l["level"] == 1 and l["inner"]["name"] not in visible:
                    visible[l["inner"]["name"]] = l["inner"]              # nested includes become visible too
        main_params = [p for p in ("a", "phi")] if rng.random() < 0.3 else []
        for _ in range(rng.choice([1, 1, 2, 3])):
            cands = [l for l in visible.values() if l["out"]["prog"]["modes"]]
            if not cands:
                break
            l = rng.choice(cands)
            callee = {"name": l["name"], "modes": l["out"]["prog"]["modes"], "params": l["out"]["prog"]["params"]}
            main["body"].insert(rng.randrange(len(main["body"]) + 1), call_stmt(g, rng, callee, main_params))
        files = []
        need = list(chosen)
        for l in chosen:
            if l["level"] == 1:
                need.append(l["inner"])
        seenf = set()
        for l in need:
            key = (tuple(l["dirs"]), l["file"])
            if key not in seenf:
                seenf.add(key)
                files.append({"path": {"dirs": l["dirs"], "file": l["file"]}, "s": l["s_tlc"], "s_full": l["s"]})
        atoms = []
        cases.append({"s": main, "s_tlc": oracle_load.shrink(main, atoms), "atoms": atoms, "files": files, "base": W, "R": t["R"]})
    cases = [c for c in cases if not c["atoms"]]
    # ---- real loads with the listener's callbacks recorded
    cwd0 = os.getcwd()
    for c in cases:
        root = tempfile.mkdtemp(prefix="bbinc_")
        lay = random.Random(rng.random())
        try:
            def inc_str(inc):
                if inc["abs"]:
                    return os.path.join(root, *inc["dirs"][1:], inc["file"])
                return "/".join(list(inc["dirs"]) + [inc["file"]])
            texts = {}
            for f in c["files"]:
                d = os.path.join(root, *f["path"]["dirs"][1:])
                os.makedirs(d, exist_ok=True)
                txt = absyn.render(dict(f["s_full"], incs=[inc_str(i) for i in f["s_full"]["incs"]]), lay)
                texts["/".join(f["path"]["dirs"][1:] + [f["path"]["file"]])] = txt
                with open(os.path.join(d, f["path"]["file"]), "w", encoding="utf-8") as fh:
                    fh.write(txt)
            os.makedirs(os.path.join(root, "w"), exist_ok=True)
            os.makedirs(os.path.join(root, "elsewhere"), exist_ok=True)
            text = absyn.render(dict(c["s"], incs=[inc_str(i) for i in c["s"]["incs"]]), lay)
            with open(os.path.join(root, "w", "main.xbb"), "w", encoding="utf-8") as fh:
                fh.write(text)
            cwd, path, rawbase = lay.choice([(os.path.join(root, "w"), "main.xbb", []), (root, os.path.join("w", "main.xbb"), ["w"]),
                                             (os.path.join(root, "elsewhere"), os.path.join(root, "w", "main.xbb"), list(c["base"]))])
            c["rawbase"] = rawbase
            os.chdir(cwd)
            with tracer.recording() as ev:
                try:
                    real = ("ok", blackbird.load(path))
                except BaseException as e:      # noqa: BLE001
                    real = ("raise", type(e).__name__, str(e.args[0]) if e.args else str(e))
            c["real"], c["events"] = real, list(ev)
            c["text"] = text.replace(root, "<root>") + "".join("\n--- %s\n%s" % (k, v.replace(root, "<root>")) for k, v in texts.items())
            c["cwd"] = os.path.relpath(cwd, root)
        finally:
            os.chdir(cwd0)
            shutil.rmtree(root, ignore_errors=True)
    r, res = oracle([dict(s=c["s_tlc"], files=[{"path": f["path"], "s": f["s"]} for f in c["files"]], base=c["base"], rawbase=c["rawbase"], events=c["events"]) for c in cases])
    rep.add_tlc(r, label % len(cases))
    for c, o in zip(cases, res):
        c["out"], c["trace"], c["at"] = o["out"], o["trace"], o["at"]
    return cases
