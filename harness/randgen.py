"""Seeded random abstract Blackbird scripts (the JSON form of the TLA+ records), far more varied than the
menus of the MC_* models.  They carry no expectation: TLC (Trace_Load.tla) is the oracle."""
import random

NAMES_PAR = ["a", "ab", "al", "alpha", "s", "sq", "b", "phi", "theta", "w2", "p1a", "p0_bs", "p3", "p"]
FUNCS = ["sin", "cos", "tan", "arctan", "sinh", "cosh", "tanh", "arcsinh", "sqrt", "exp", "log"]
OPS = ["Sgate", "Dgate", "Rgate", "BSgate", "S2gate", "Kgate", "Vac", "Coherent", "Fock", "Interferometer", "G_1", "Zgate"]
MEAS = ["MeasureX", "MeasureP", "MeasureFock", "MeasureHomodyne", "Measure"]


def I(n):
    return {"t": "int", "n": n}


def F(n, d):
    from fractions import Fraction
    f = Fraction(n, d)
    return {"t": "flt", "n": f.numerator, "d": f.denominator}


def level(e):
    t = e["t"]
    if t == "bin":
        return {"+": 1, "-": 1, "*": 2, "/": 2, "**": 3}[e["op"]]
    if t in ("neg", "pos"):
        return 4
    return 5


LMIN = {"+": 1, "-": 1, "*": 2, "/": 2, "**": 4}
RMIN = {"+": 2, "-": 2, "*": 3, "/": 3, "**": 3}


def brk(e):
    return {"t": "brk", "a": e}


def fix(e):
    """insert brackets where the binding table requires them, so that the tree is directly writable"""
    t = e["t"]
    if t == "bin":
        l, r = fix(e["l"]), fix(e["r"])
        if level(l) < LMIN[e["op"]]:
            l = brk(l)
        if level(r) < RMIN[e["op"]]:
            r = brk(r)
        return dict(e, l=l, r=r)
    if t in ("neg", "pos"):
        a = fix(e["a"])
        return dict(e, a=brk(a) if level(a) < 4 else a)
    if t in ("brk", "fn"):
        return dict(e, a=fix(e["a"]))
    if t == "idx":
        return dict(e, e=fix(e["e"]))
    return e


class Ctx:
    def __init__(self):
        self.scalars = {}      # name -> kind
        self.arrays = {}       # name -> (ty, rows, cols)
        self.loopvar = None    # (name, kind)
        self.params = False
        self.regs = False


class Gen:
    def __init__(self, rng):
        self.rng = rng

    def number(self, kinds=("int", "float")):
        r = self.rng
        k = r.choice(kinds)
        if k == "int":
            if r.random() < 0.03:
                return I(r.choice([10 ** 12, 2 ** 31, 99999]))            # long literals (opaque atoms for TLC)
            return I(r.choice([0, 1, 2, 3, 4, 5, 7, 10, 12]))
        if k == "float":
            if r.random() < 0.04:
                return F(*r.choice([(1, 10 ** 9), (25 * 10 ** 11, 1), (0, 1), (1, 10 ** 30), (123456789, 1000)]))
            return F(r.choice([1, 3, 5, 7, 9, 11, 25]), r.choice([2, 4, 5, 8, 10, 20]))
        from fractions import Fraction
        re_, im = Fraction(r.choice([0, 1, 2, 3]), r.choice([1, 2])), Fraction(r.choice([-2, -1, 1, 2, 5, 0]), r.choice([1, 2, 4]))
        return {"t": "cpx", "re": [re_.numerator, re_.denominator], "im": [im.numerator, im.denominator]}

    def leaf(self, ctx, kinds):
        r = self.rng
        opts = []
        for n, k in ctx.scalars.items():
            if k in kinds:
                opts.append({"t": "var", "x": n})
        for n, (ty, rows, cols) in ctx.arrays.items():
            if ty in kinds:
                opts.append({"t": "idx", "x": n, "e": I(r.randrange(rows * cols))})
        if ctx.loopvar and ctx.loopvar[1] in kinds:
            opts += [{"t": "var", "x": ctx.loopvar[0]}] * 3
        if opts and r.random() < 0.45:
            return r.choice(opts)
        if "float" in kinds and r.random() < 0.08:
            return {"t": "pi"}
        return self.number(tuple(k for k in kinds if k in ("int", "float", "complex")) or ("int",))

    def expr(self, ctx, depth, kinds=("int", "float"), sym=False):
        """numeric expression; sym=True may mention a template parameter or (if ctx.regs) a measured register"""
        r = self.rng
        if depth <= 0 or r.random() < 0.3:
            if sym and r.random() < 0.5:
                if ctx.regs and r.random() < 0.5:
                    return {"t": "reg", "n": r.choice([0, 1, 2, 10])}
                return {"t": "par", "p": r.choice(NAMES_PAR)}
            return self.leaf(ctx, kinds)
        c = r.random()
        if c < 0.55:
            op = r.choice(["+", "-", "*", "*", "/"] if not sym else ["+", "*", "*", "/"])
            l = self.expr(ctx, depth - 1, kinds, sym)
            rr = self.expr(ctx, depth - 1, kinds, sym and op != "/")
            if op == "/" and rr["t"] == "int" and rr["n"] == 0:
                rr = I(2)
            return {"t": "bin", "op": op, "l": l, "r": rr}
        if c < 0.65:
            return {"t": "bin", "op": "**", "l": self.expr(ctx, depth - 1, kinds, sym), "r": I(r.choice([2, 2, 3]))}
        if c < 0.78:
            return {"t": r.choice(["neg", "neg", "pos"]), "a": self.expr(ctx, depth - 1, kinds, sym)}
        if c < 0.88 and "float" in kinds and not sym:
            return {"t": "fn", "f": r.choice(FUNCS), "a": self.expr(ctx, depth - 1, ("int", "float"), False)}
        return brk(self.expr(ctx, depth - 1, kinds, sym))

    def val(self, ctx, depth=2):
        r = self.rng
        c = r.random()
        if c < 0.08:
            return {"t": "str", "s": r.choice(["a", "hello", "x_1", "two words", "\u00e9 \u65e5", "1.5", "True", "p0", "q1", "{a}", "pi", "for", "1j", "", "1,2", "10,000", "a\\b", "# no comment", "2 | 3"])}
        if c < 0.14:
            return {"t": "bool", "b": r.random() < 0.5}
        if c < 0.24:
            return fix(self.expr(ctx, 1, ("complex", "float")))
        if c < 0.45 and (ctx.params or ctx.regs):
            return fix(self.expr(ctx, depth, ("int", "float"), sym=True))
        return fix(self.expr(ctx, depth))

    def mode(self, ctx):
        r = self.rng
        opts = [I(r.randrange(0, 6))] * 3
        for n, k in ctx.scalars.items():
            if k == "int":
                opts.append({"t": "var", "x": n})
        for n, (ty, rows, cols) in ctx.arrays.items():
            if ty == "int":
                opts.append({"t": "idx", "x": n, "e": I(r.randrange(rows * cols))})
        if ctx.loopvar and ctx.loopvar[1] == "int":
            opts += [{"t": "var", "x": ctx.loopvar[0]}, {"t": "bin", "op": "+", "l": {"t": "var", "x": ctx.loopvar[0]}, "r": I(1)}] * 2
        return r.choice(opts)

    def stmt(self, ctx):
        r = self.rng
        if r.random() < 0.2:
            op, hasargs = r.choice(MEAS), r.random() < 0.3
        else:
            op, hasargs = r.choice(OPS), r.random() < 0.8
        args, kw = [], []
        if hasargs:
            args = [self.val(ctx) for _ in range(r.choice([0, 1, 1, 2, 3]))]
            for k in r.sample(["phi", "select", "k", "cutoff", "dark_counts", "l"], r.choice([0, 0, 1, 2, 2])):
                if r.random() < 0.3:
                    kw.append({"k": k, "v": {"t": "lst", "xs": [self.val(ctx, 1) for _ in range(r.choice([1, 2, 3]))]}})
                else:
                    kw.append({"k": k, "v": self.val(ctx)})
            # arrays as whole arguments
            if ctx.arrays and r.random() < 0.25:
                args.append({"t": "var", "x": r.choice(list(ctx.arrays))})
        nm = r.choice([1, 1, 1, 2, 2, 3])
        st = {"t": "stmt", "op": op, "hasargs": hasargs, "args": args, "kw": kw, "modes": [self.mode(ctx) for _ in range(nm)],
              "br": r.choice(["none", "none", "sq", "par"]) if nm > 1 or r.random() < 0.3 else "none"}
        if st["br"] == "none" and nm == 1 and st["modes"][0]["t"] == "brk":      # "| (m)" is the parenthesised mode list
            st["br"], st["modes"] = "par", [st["modes"][0]["a"]]
        return st

    def decl(self, ctx):
        r = self.rng
        regs, ctx.regs = ctx.regs, False          # measured registers belong in arguments, not in declarations
        try:
            return self._decl(ctx)
        finally:
            ctx.regs = regs

    def array_valued(self, ctx):
        """a scalar-typed name bound to a whole array: "float A = A*A", "int M = N", "float R = sqrt(B)", "complex Z = -C**2" """
        r = self.rng
        src = r.choice(list(ctx.arrays))
        sty, rows, cols = ctx.arrays[src]
        same = [n for n, (t, rr, cc) in ctx.arrays.items() if (rr, cc) == (rows, cols) and t != "pname"]
        a = {"t": "var", "x": src}
        c = r.random()
        kinds = {sty}
        if c < 0.2:
            e = a
        elif c < 0.35:
            e = {"t": "neg", "a": a}
        elif c < 0.5:
            e = {"t": "bin", "op": "**", "l": a, "r": I(r.choice([2, 3]))}
        elif c < 0.6:
            e = {"t": "fn", "f": r.choice(["sqrt", "exp", "sin", "arctan"]), "a": a}
            kinds.add("float")
        else:
            other = r.choice(same)
            kinds.add(ctx.arrays[other][0])
            e = {"t": "bin", "op": r.choice(["+", "-", "*", "*"]), "l": a, "r": {"t": "var", "x": other}}
            if r.random() < 0.3:
                e = {"t": "bin", "op": r.choice(["+", "-", "*"]), "l": e, "r": {"t": "var", "x": r.choice(same)}}
        res = "complex" if "complex" in kinds else ("float" if "float" in kinds else "int")
        ty = r.choice({"int": ["int", "float", "complex"], "float": ["float", "float", "complex"], "complex": ["complex", "complex", "float"]}[res])
        name = src if r.random() < 0.6 else r.choice(["A", "B", "U", "M"])
        ctx.scalars.pop(name, None)
        ctx.arrays[name] = (ty, rows, cols)
        return {"t": "var", "ty": ty, "x": name, "e": fix(e)}

    def _decl(self, ctx):
        r = self.rng
        if r.random() < 0.3 and any(t != "pname" for t, _, _ in ctx.arrays.values()):
            ctx2 = [n for n, v in ctx.arrays.items() if v[0] != "pname"]
            saved = dict(ctx.arrays)
            ctx.arrays = {n: saved[n] for n in ctx2}
            try:
                d = self.array_valued(ctx)
            finally:
                for n, v in saved.items():
                    ctx.arrays.setdefault(n, v)
            return d
        if r.random() < 0.6:
            ty = r.choice(["int", "float", "float", "complex", "bool", "str"])
            name = r.choice(["x", "y", "n", "m", "beta", "flag", "label", "x"]) if r.random() < 0.8 else r.choice(list(ctx.scalars) or ["x"])
            if ty == "bool":
                e = {"t": "bool", "b": r.random() < 0.5}
            elif ty == "str":
                e = {"t": "str", "s": r.choice(["hi", "run 1"])}
            else:
                kinds = {"int": ("int",), "float": ("int", "float"), "complex": ("int", "float", "complex")}[ty]
                e = fix(self.expr(ctx, 2, kinds, sym=ctx.params and r.random() < 0.15))
                if ty == "int":                      # keep integer initialisers integer-valued
                    e = fix(self.int_expr(ctx, 2))
            ctx.arrays.pop(name, None)
            ctx.scalars[name] = ty
            return {"t": "var", "ty": ty, "x": name, "e": e}
        ty = r.choice(["int", "float", "complex"])
        name = r.choice(["A", "B", "U", "A"] + (["p1x", "p_2"] if getattr(ctx, "tdm", False) else []))   # not p<digits>: by value also under tdm
        rows, cols = r.choice([(1, 1), (1, 3), (2, 2), (3, 1), (2, 3), (1, 4)])
        kinds = {"int": ("int",), "float": ("int", "float"), "complex": ("int", "float", "complex")}[ty]
        body = []
        for _ in range(rows):
            row = []
            for _ in range(cols):
                if ctx.params and r.random() < 0.1:
                    row.append({"t": "par", "p": r.choice(NAMES_PAR)})
                elif ty == "int":
                    row.append(fix(self.int_expr(ctx, 1)))
                else:
                    row.append(fix(self.expr(ctx, 1, kinds)))
            body.append(row)
        ctx.scalars.pop(name, None)
        ctx.arrays[name] = (ty, rows, cols)
        return {"t": "arr", "ty": ty, "x": name, "shape": [rows, cols] if r.random() < 0.4 else [], "rows": body}

    def int_expr(self, ctx, depth):
        r = self.rng
        if depth <= 0 or r.random() < 0.4:
            return self.leaf(ctx, ("int",))
        op = r.choice(["+", "-", "*", "**"])
        if op == "**":
            return {"t": "bin", "op": "**", "l": self.int_expr(ctx, depth - 1), "r": I(r.choice([2, 3]))}
        return {"t": "bin", "op": op, "l": self.int_expr(ctx, depth - 1), "r": self.int_expr(ctx, depth - 1)}

    def loop(self, ctx):
        r = self.rng
        ty = r.choice(["int", "int", "float", "str", "bool"])
        name = r.choice(["i", "j", "k"])
        if ty in ("int", "float") and r.random() < 0.6:
            a, b = r.randrange(0, 3), r.randrange(0, 5)
            c = r.choice([0, 0, 1, 2])
            hdr = {"t": "range", "a": a, "b": b, "c": c, "hasc": c != 0}
        else:
            if ty == "int":
                xs = [fix(self.int_expr(ctx, 1)) for _ in range(r.choice([1, 2, 3]))]
            elif ty == "float":
                xs = [fix(self.expr(ctx, 1)) for _ in range(r.choice([1, 2, 3]))]
            elif ty == "str":
                xs = [{"t": "str", "s": r.choice(["a", "b c", "z9"])} for _ in range(r.choice([1, 2]))]
            else:
                xs = [{"t": "bool", "b": r.random() < 0.5} for _ in range(r.choice([1, 2]))]
            if r.random() < 0.06:      # a value of the wrong type: the loop must be refused
                xs.append({"t": "str", "s": "oops"} if ty != "str" else I(3))
            hdr = {"t": "vals", "br": r.choice(["sq", "par", "none"]), "xs": xs}
            # a bare single value written "(v)" is read as the parenthesised list [v]
            if hdr["br"] == "none" and len(xs) == 1 and xs[0]["t"] == "brk":
                hdr = {"t": "vals", "br": "par", "xs": [xs[0]["a"]]}
        old = ctx.loopvar
        ctx.loopvar = (name, ty)
        body = [self.stmt(ctx) for _ in range(r.choice([1, 1, 2]))]
        ctx.loopvar = old
        return {"t": "for", "ty": ty, "x": name, "hdr": hdr, "body": body}

    def script(self, size=None):
        r = self.rng
        ctx = Ctx()
        ctx.params = r.random() < 0.35
        ctx.regs = r.random() < 0.25
        no = {"name": "", "hasargs": False, "args": [], "kw": []}

        def meta(nm):
            if r.random() < 0.5:
                return dict(no)
            d = {"name": nm, "hasargs": r.random() < 0.6, "args": [], "kw": []}
            if d["hasargs"]:
                for k in r.sample(["shots", "cutoff_dim", "flag", "opts", "label"], r.choice([1, 2, 3])):
                    c = r.random()
                    empty = Ctx()
                    if c < 0.25:
                        v = {"t": "lst", "xs": [self.val(empty, 1) for _ in range(r.choice([1, 2, 3]))]}
                    else:
                        v = self.val(empty, 1)
                    d["kw"].append({"k": k, "v": v})
                if r.random() < 0.15:                      # positional options: evaluated, then ignored
                    d["args"] = [self.val(Ctx(), 1) for _ in range(r.choice([1, 2]))]
            return d
        s = {"name": r.choice(["prog", "test_1", "Tele"]), "version": "1.0", "target": meta(r.choice(["gaussian", "X8_01", "fock"])),
             "type": meta(r.choice(["tdm", "sampling", "tdm", "TDM"])), "incs": [], "body": []}
        tdm = s["type"]["name"] in ("tdm", "TDM")       # (p-arrays are generated under both; only "tdm" makes them special)
        ctx.tdm = tdm
        n = size if size is not None else r.choice([1, 2, 3, 4, 5, 6, 8])
        for _ in range(n):
            c = r.random()
            if tdm and c < 0.15:
                nm = r.choice(["p0", "p1", "p12"])
                row = [fix(self.expr(Ctx(), 1)) for _ in range(r.choice([1, 2, 3]))]
                s["body"].append({"t": "arr", "ty": "float", "x": nm, "shape": [], "rows": [row]})
                ctx.arrays[nm] = ("pname", 1, len(row))
                continue
            if c < 0.06 and s["body"]:                      # an earlier item once more, verbatim (whatever was declared again since)
                import copy
                s["body"].append(copy.deepcopy(r.choice(s["body"])))
                continue
            if c < 0.35:
                s["body"].append(self.decl(ctx))
            elif c < 0.5:
                s["body"].append(self.loop(ctx))
            elif c < 0.53:                                  # a fault: an undefined name
                s["body"].append({"t": "stmt", "op": "Bad", "hasargs": True, "args": [{"t": "var", "x": "undefined_name"}], "kw": [], "modes": [I(0)], "br": "none"})
            else:
                st = self.stmt(ctx)
                if tdm and r.random() < 0.4:
                    ps = [nm for nm, v in ctx.arrays.items() if v[0] == "pname"]
                    if ps:
                        st["hasargs"] = True
                        st["args"] = st["args"] + [{"t": "var", "x": r.choice(ps)}]
                s["body"].append(st)
        return s


def scripts(seed, n):
    rng = random.Random(seed)
    g = Gen(rng)
    return [g.script() for _ in range(n)]
