"""Abstract Blackbird scripts (the JSON form of the TLA+ records in BBSyntax) <-> text.

render: abstract script -> token list -> text under a layout; the only trusted step between the
specification and the code on the input side, and itself checked: tree2abs converts the REAL parse
tree of the rendered text back to an abstract script, which must equal the one rendered."""
import random, re
from fractions import Fraction

NL, TAB = "\n", "\t"


class Tok:
    __slots__ = ("s", "glue", "kind")

    def __init__(self, s, glue=False, kind="tok"):
        self.s, self.glue, self.kind = s, glue, kind


def dec(fr, rng=None, style=0):
    """exact decimal spelling of a Fraction whose denominator divides a power of ten"""
    fr = Fraction(fr)
    assert fr >= 0
    d = fr.denominator
    k = 0
    while d % 2 == 0:
        d //= 2
        k += 1
    m = 0
    while d % 5 == 0:
        d //= 5
        m += 1
    if d != 1:
        raise ValueError("not a finite decimal: %s" % fr)
    p = max(k, m, 1)
    n = fr.numerator * 10 ** p // fr.denominator
    s = str(n).rjust(p + 1, "0")
    base = s[:-p] + "." + s[-p:]
    if style == 0:
        return base
    if style == 1:
        return base + "0"
    if style == 2:                                # exponent form, mantissa integer
        digits = str(n).lstrip("0") or "0"
        return "%se-%d" % (digits, p)
    if style == 3:
        return "0" + base
    if style == 4:
        return base + "E+0"
    if style == 5:
        return base + "e0"
    return base


def num_forms(e, rng):
    t = e["t"]
    if t == "int":
        return rng.choice([str(e["n"]), str(e["n"]), "0" + str(e["n"])]) if rng else str(e["n"])
    if t == "flt":
        return dec(Fraction(e["n"], e["d"]), style=rng.randrange(6) if rng else 0)
    if t == "cpx":
        re_, im = Fraction(*e["re"]), Fraction(*e["im"])

        def part(x):
            if x.denominator == 1 and (not rng or rng.random() < 0.6):
                return str(x.numerator)
            return dec(x, style=rng.choice([0, 1, 2, 4]) if rng else 0)
        j = rng.choice("jJ") if rng else "j"
        if re_ == 0 and (not rng or rng.random() < 0.7):
            return ("-" if im < 0 else "") + part(abs(im)) + j
        return ("-" if re_ < 0 else "") + part(abs(re_)) + ("-" if im < 0 else "+") + part(abs(im)) + j
    raise ValueError(t)


def first_leaf(e):
    while True:
        t = e["t"]
        if t == "bin":
            e = e["l"]
        elif t in ("idx",):
            return e
        else:
            return e


def expand_atoms(node):
    """named opaque literals of the models ([t |-> "atom", k, a |-> "i63"]) written out as the literals they stand for"""
    from . import values
    if isinstance(node, list):
        return [expand_atoms(x) for x in node]
    if not isinstance(node, dict):
        return node
    if node.get("t") == "atom" and isinstance(node.get("a"), str) and node["a"] in values.ATOMS:
        x = values.ATOMS[node["a"]]
        if isinstance(x, int):
            return {"t": "neg", "a": {"t": "int", "n": -x}} if x < 0 else {"t": "int", "n": x}
        raise ValueError("only integer atoms can be written as literals")
    return {k: expand_atoms(v) for k, v in node.items()}


_REGPAD = {}          # register number -> leading zeros used in the text being rendered (reset by render / render_expr)


def expr_tokens(e, rng=None):
    """tokens of an expression; glue=True means 'no space before' in the natural layout"""
    t = e["t"]
    if t in ("int", "flt", "cpx"):
        return [Tok(num_forms(e, rng))]
    if t == "pi":
        return [Tok("pi")]
    if t == "val":
        return val_literal_tokens(e["v"])
    if t == "var":
        return [Tok(e["x"])]
    if t == "reg":
        # q01, q007 name the same register as q1, q7; one spelling per register within a text (two spellings of one register in
        # one expression are two different symbols for the code: outside the properties)
        if e["n"] not in _REGPAD:
            _REGPAD[e["n"]] = "0" * rng.randint(1, 2) if (rng and rng.random() < 0.25) else ""
        return [Tok("q%s%d" % (_REGPAD[e["n"]], e["n"]))]
    if t == "par":
        return [Tok("{"), Tok(e["p"], True), Tok("}", True)]
    if t == "idx":
        return [Tok(e["x"]), Tok("[", True)] + glue_first(expr_tokens(e["e"], rng)) + [Tok("]", True)]
    if t == "brk":
        return [Tok("(")] + glue_first(expr_tokens(e["a"], rng)) + [Tok(")", True)]
    if t in ("neg", "pos"):
        inner = expr_tokens(e["a"], rng)
        fl = e["a"]
        while fl["t"] == "bin":
            fl = fl["l"]
        tight = fl["t"] != "cpx" and not (rng and rng.random() < 0.2)
        if tight:
            inner = glue_first(inner)
        return [Tok("-" if t == "neg" else "+")] + inner
    if t == "bin":
        r = expr_tokens(e["r"], rng)
        fl = e["r"]
        while fl["t"] == "bin":
            fl = fl["l"]
        op = Tok(e["op"])
        # a tight spelling "a*b" is allowed where no token can merge (never for + and - next to numbers)
        if rng and rng.random() < 0.25 and (e["op"] in ("*", "/", "**")):
            op = Tok(e["op"], True)
            r = glue_first(r)
        return expr_tokens(e["l"], rng) + [op] + r
    if t == "fn":
        return [Tok(e["f"]), Tok("(", True)] + glue_first(expr_tokens(e["a"], rng)) + [Tok(")", True)]
    if t == "str":
        return [Tok('"%s"' % e["s"])]
    if t == "bool":
        return [Tok("True" if e["b"] else "False")]
    raise ValueError("expr " + t)


def val_literal_tokens(v):
    """a literal denoting exactly the specification value v (used for scripts the spec derives: inlined, serialised)"""
    from . import values
    k = v["k"]
    if k == "str":
        return [Tok('"%s"' % v["s"])]
    if k == "bool":
        return [Tok("True" if v["b"] else "False")]
    if v.get("x"):
        re_, im = Fraction(*v["re"]), Fraction(*v["im"])
    else:
        x, _ = values.eval_term(v["term"])
        x = complex(x)
        re_, im = x.real, x.imag

    def spell(q):
        q = abs(q)
        if isinstance(q, Fraction):
            if k == "int":
                return str(int(q))
            try:
                return dec(q)
            except ValueError:
                return repr(float(q))
        return repr(float(q))
    if k == "complex":
        return [Tok(("-" if re_ < 0 else "") + spell(re_) + ("-" if im < 0 else "+") + spell(im) + "j")]   # one COMPLEX token
    return ([Tok("-"), Tok(spell(re_), True)] if re_ < 0 else [Tok(spell(re_))])


def glue_first(toks):
    if toks:
        toks[0].glue = True
    return toks


def commas(parts):
    out = []
    for i, p in enumerate(parts):
        if i:
            out.append(Tok(",", True))
        out += p
    return out


def val_tokens(v, rng=None):
    if v["t"] == "lst":
        return [Tok("[")] + glue_first(commas([expr_tokens(x, rng) for x in v["xs"]])) + [Tok("]", True)]
    return expr_tokens(v, rng)


def args_tokens(a, rng=None):
    """a: {hasargs, args, kw}"""
    if not a.get("hasargs"):
        return []
    parts = [expr_tokens(x, rng) for x in a["args"]]
    for kw in a["kw"]:
        parts.append([Tok(kw["k"]), Tok("=", True)] + glue_first(val_tokens(kw["v"], rng)))
    inner = commas(parts)
    return [Tok("(", True)] + glue_first(inner) + [Tok(")", True)]


def stmt_tokens(s, rng=None):
    out = [Tok(s["op"])] + args_tokens(s, rng) + [Tok("|")]
    modes = commas([expr_tokens(m, rng) for m in s["modes"]])
    if s["br"] == "sq":
        modes = [Tok("[")] + glue_first(modes) + [Tok("]", True)]
    elif s["br"] == "par":
        modes = [Tok("(")] + glue_first(modes) + [Tok(")", True)]
    return out + modes


def meta_tokens(kw, m, rng=None):
    return [Tok(kw), Tok(m["name"])] + ([Tok(" ", kind="sp")] if False else []) + meta_args(m, rng)


def meta_args(m, rng):
    a = args_tokens(m, rng)
    if a:
        a[0].glue = False      # "target dev (shots=1)"
    return a


def script_lines(s, rng=None):
    """list of lines; each line = (indent: bool, [Tok])"""
    lines = [(False, [Tok("name"), Tok(s["name"])]), (False, [Tok("version"), Tok(s["version"])])]
    if s["target"]["name"]:
        lines.append((False, meta_tokens("target", s["target"], rng)))
    if s["type"]["name"]:
        lines.append((False, meta_tokens("type", s["type"], rng)))
    for inc in s.get("incs", []):
        lines.append((False, [Tok("include"), Tok('"%s"' % inc)]))
    for it in s["body"]:
        t = it["t"]
        if t == "var":
            lines.append((False, [Tok(it["ty"]), Tok(it["x"]), Tok("=")] + expr_tokens(it["e"], rng)))
        elif t in ("arr", "arrp"):
            hd = [Tok(it["ty"]), Tok("array"), Tok(it["x"])]
            if it["shape"]:
                hd += [Tok("[", True)] + glue_first(commas([[Tok(str(n))] for n in it["shape"]])) + [Tok("]", True)]
            lines.append((False, hd + [Tok("=")]))
            if t == "arrp":
                lines.append((True, expr_tokens({"t": "par", "p": it["p"]}, rng)))
            else:
                for row in it["rows"]:
                    lines.append((True, commas([expr_tokens(x, rng) for x in row])))
        elif t == "stmt":
            lines.append((False, stmt_tokens(it, rng)))
        elif t == "for":
            h = it["hdr"]
            hd = [Tok("for"), Tok(it["ty"]), Tok(it["x"]), Tok("in")]
            if h["t"] == "range":
                hd += [Tok(str(h["a"])), Tok(":", True), Tok(str(h["b"]), True)]
                if h["hasc"]:
                    hd += [Tok(":", True), Tok(str(h["c"]), True)]
            else:
                vs = commas([expr_tokens(x, rng) for x in h["xs"]])
                if h["br"] == "sq":
                    vs = [Tok("[")] + glue_first(vs) + [Tok("]", True)]
                elif h["br"] == "par":
                    vs = [Tok("(")] + glue_first(vs) + [Tok(")", True)]
                hd += vs
            lines.append((False, hd))
            for st in it["body"]:
                lines.append((True, stmt_tokens(st, rng)))
        else:
            raise ValueError("item " + t)
    return lines


DEFAULT_LAYOUT = dict(nl="\n", indent="    ", final_nl=True, spaced=False)

# comment texts: code-like text, quotes, braces, and characters that some string methods treat as line ends (form feed, vertical tab,
# file/group/record separators, NEL, LINE/PARAGRAPH SEPARATOR) but the grammar does not (a comment runs to the next CR or LF)
COMMENTS = ["# a comment line, with = | [ symbols {x}", "# trailing comment | 1", "#", "# \"unterminated string", "# tab\tinside",
            "# was:\x0cVgate(1) | 3", "# page\x0bbreak \x1c \x1d \x1e", "# next\x85Vac | 9", "# caf\u00e9 \u2028Vac | 8\u2029 x", "## for int i in 0:3", "# data in C:\\runs\\", "# continued \\"]
# layout the language declares insignificant (C18); every key is optional:
#   nl: "\n" | "\r\n" | "\r"      indent: "\t" | "    "      final_nl: bool
#   spaced: a space at EVERY token boundary        wide: 1..3 spaces wherever there is one
#   trail: probability of 1..3 spaces at a line end          eol_comment: probability of a comment at a line end
#   own_comment / blank: probability of a comment line / empty line before a top-level line (never inside array bodies or loops)
#   lead: number of blank/comment lines before the metadata


def join_line(toks, layout, rng=None):
    out = []
    for i, t in enumerate(toks):
        if i and not (t.glue and not layout.get("spaced")):
            n = 1
            if layout.get("wide") and rng:
                n = rng.randint(1, 3)
            out.append(" " * n)
        out.append(t.s)
    return "".join(out)


def render(s, rng=None, layout=None):
    lay = dict(DEFAULT_LAYOUT)
    lay.update(layout or {})
    _REGPAD.clear()
    lines = script_lines(s, rng)
    lrng = random.Random((rng.random() if rng else 0.5))
    out = []
    nmeta = 2 + (1 if s["target"]["name"] else 0) + (1 if s["type"]["name"] else 0) + len(s.get("incs", []))
    for k in range(lay.get("lead", 0)):
        out.append("# header comment %d" % k if k % 2 else "")
    for i, (ind, toks) in enumerate(lines):
        if i == nmeta and lay.get("blank_after_meta", True):
            out.append("")
        if not ind and i > 0:
            if lrng.random() < lay.get("blank", 0):
                out.append("")
            if lrng.random() < lay.get("own_comment", 0):
                out.append(lrng.choice(COMMENTS))
        line = (lay["indent"] if ind else "") + join_line(toks, lay, rng)
        if lrng.random() < lay.get("eol_comment", 0):
            line += " " * lrng.randint(1, 2) + lrng.choice(COMMENTS)
        elif lrng.random() < lay.get("trail", 0):
            line += " " * lrng.randint(1, 3)
        out.append(line)
    text = lay["nl"].join(out)
    last_is_row = bool(lines) and lines[-1][0] and lines[-1][1] and s["body"] and s["body"][-1]["t"] in ("arr", "arrp")
    if lay["final_nl"] or last_is_row:
        text += lay["nl"]
    return text


def render_expr(e, rng=None):
    _REGPAD.clear()
    return join_line(expr_tokens(e, rng), DEFAULT_LAYOUT, rng)


# ------------------------------------------------------------------ real parse tree -> abstract syntax
def _frac_pair(x):
    f = Fraction(x)
    return [f.numerator, f.denominator]


_CPX = re.compile(r"^([+-])?(?:((?:\d+(?:\.\d+)?(?:[eE][+-]?\d+)?))([+-]))?(\d+(?:\.\d+)?(?:[eE][+-]?\d+)?)[jJ]$")


def expr_of(ctx, P):
    n = type(ctx).__name__
    if n == "NumberLabelContext":
        num = ctx.number()
        tx = num.getText()
        if num.INT():
            return {"t": "int", "n": int(tx)}
        if num.FLOAT():
            f = Fraction(tx)
            return {"t": "flt", "n": f.numerator, "d": f.denominator}
        if num.PI():
            return {"t": "pi"}
        m = _CPX.match(tx)
        sign, re_, mid, im = m.groups()
        if re_ is None:
            r = Fraction(0)
            i = Fraction(im) * (-1 if sign == "-" else 1)
        else:
            r = Fraction(re_) * (-1 if sign == "-" else 1)
            i = Fraction(im) * (-1 if mid == "-" else 1)
        return {"t": "cpx", "re": _frac_pair(r), "im": _frac_pair(i)}
    if n == "VariableLabelContext":
        if ctx.REGREF():
            return {"t": "reg", "n": int(ctx.getText()[1:])}
        return {"t": "var", "x": ctx.getText()}
    if n == "ArrayIdxLabelContext":
        return {"t": "idx", "x": ctx.NAME().getText(), "e": expr_of(ctx.expression(), P)}
    if n == "ParameterLabelContext":
        return {"t": "par", "p": ctx.parameter().NAME().getText()}
    if n == "BracketsLabelContext":
        return {"t": "brk", "a": expr_of(ctx.expression(), P)}
    if n == "SignLabelContext":
        return {"t": "neg" if ctx.MINUS() else "pos", "a": expr_of(ctx.expression(), P)}
    if n in ("AddLabelContext", "MulLabelContext", "PowerLabelContext"):
        a, b = ctx.expression()
        op = ctx.getChild(1).getText()
        return {"t": "bin", "op": op, "l": expr_of(a, P), "r": expr_of(b, P)}
    if n == "FunctionLabelContext":
        return {"t": "fn", "f": ctx.function().getText(), "a": expr_of(ctx.expression(), P)}
    raise ValueError("expression context " + n)


def nonnum_of(ctx):
    if ctx.STR():
        return {"t": "str", "s": ctx.getText()[1:-1]}
    return {"t": "bool", "b": ctx.getText() == "True"}


def val_of(ctx, P):
    return expr_of(ctx.expression(), P) if ctx.expression() else nonnum_of(ctx.nonnumeric())


def args_of(actx, P):
    if actx is None:
        return {"hasargs": False, "args": [], "kw": []}
    args = [val_of(v, P) for v in actx.val_list]
    kw = []
    for k in actx.kwarg_list:
        if k.val():
            kw.append({"k": k.NAME().getText(), "v": val_of(k.val(), P)})
        else:
            xs = [val_of(v, P) for v in k.vallist().val()] if k.vallist() else []
            kw.append({"k": k.NAME().getText(), "v": {"t": "lst", "xs": xs}})
    return {"hasargs": True, "args": args, "kw": kw}


def stmt_of(ctx, P):
    d = {"t": "stmt", "op": (ctx.operation() or ctx.measure()).getText()}
    d.update(args_of(ctx.arguments(), P))
    d["modes"] = [expr_of(e, P) for e in ctx.arrayrow().expression()]
    br = "none"
    for ch in ctx.getChildren():
        tx = ch.getText()
        if ch is ctx.arrayrow():
            break
    # bracket style: token right after APPLY
    kids = list(ctx.getChildren())
    for i, ch in enumerate(kids):
        if ch.getText() == "|" and i + 1 < len(kids):
            nx = kids[i + 1].getText()
            if kids[i + 1] is not ctx.arrayrow():
                br = "sq" if nx == "[" else "par"
    d["br"] = br
    return d


def tree2abs(tree, P):
    """start context -> abstract script (same shape as the TLA+ records)"""
    md = tree.metadatablock()

    def meta(ctx, namectx):
        if ctx is None:
            return {"name": "", "hasargs": False, "args": [], "kw": []}
        d = {"name": namectx(ctx).getText()}
        d.update(args_of(ctx.arguments(), P))
        return d
    s = {"name": md.declarename().programname().getText(), "version": md.version().versionnumber().getText(),
         "target": meta(md.target(), lambda c: c.device()), "type": meta(md.declaretype(), lambda c: c.programtype()),
         "incs": [i.STR().getText()[1:-1] for i in md.include_list], "body": []}
    prog = tree.program()
    for ch in prog.getChildren():
        n = type(ch).__name__
        if n == "ExpressionvarContext":
            e = expr_of(ch.expression(), P) if ch.expression() else nonnum_of(ch.nonnumeric())
            s["body"].append({"t": "var", "ty": ch.vartype().getText(), "x": ch.name().getText(), "e": e})
        elif n == "ArrayvarContext":
            shape = [int(i) for i in ch.shape().getText().split(",")] if ch.shape() else []
            if ch.parameter():
                s["body"].append({"t": "arrp", "ty": ch.vartype().getText(), "x": ch.name().getText(), "shape": shape,
                                  "p": ch.parameter().NAME().getText()})
            else:
                rows = [[expr_of(e, P) for e in r.expression()] for r in ch.arrayval().row_list]
                s["body"].append({"t": "arr", "ty": ch.vartype().getText(), "x": ch.name().getText(), "shape": shape, "rows": rows})
        elif n == "StatementContext":
            s["body"].append(stmt_of(ch, P))
        elif n == "ForloopContext":
            if ch.rangeval():
                ns = [int(c.getText()) for c in ch.rangeval().getChildren() if c.getText() != ":"]
                hdr = {"t": "range", "a": ns[0], "b": ns[1], "c": ns[2] if len(ns) > 2 else 0, "hasc": len(ns) > 2}
            else:
                br = "none"
                kids = list(ch.getChildren())
                for i, k in enumerate(kids):
                    if k is ch.vallist() and i > 0:
                        p = kids[i - 1].getText()
                        br = "sq" if p == "[" else ("par" if p == "(" else "none")
                hdr = {"t": "vals", "br": br, "xs": [val_of(v, P) for v in ch.vallist().val()]}
            s["body"].append({"t": "for", "ty": ch.vartype().getText(), "x": ch.NAME().getText(), "hdr": hdr,
                              "body": [stmt_of(st, P) for st in ch.statement_list]})
    return s
