"""Projection of real Python/NumPy/SymPy values, numeric evaluation of the spec's closed terms, and
comparison of a real value with the value the specification predicts.

The spec decides kind, structure and (in the rational fragment) the exact value.  Floating-point
tolerance is the property's relative 1e-12 plus a forward error bound computed here from the
expression (so that a result that cancels to ~0 is not compared more strictly than floats allow)."""
import cmath, math
from fractions import Fraction
import numpy as np
import sympy as sym

U = 2.0 ** -52
RTOL = 1e-12


def Q(p):
    return Fraction(p[0], p[1])


def project(v):
    """real value -> (kind, payload)"""
    if isinstance(v, (bool, np.bool_)):
        return ("bool", bool(v))
    if isinstance(v, (int, np.integer)):
        return ("int", int(v))
    if isinstance(v, (float, np.floating)):
        return ("float", float(v))
    if isinstance(v, (complex, np.complexfloating)):
        return ("complex", complex(v))
    if isinstance(v, str):
        return ("str", str(v))
    if isinstance(v, np.ndarray):
        return ("arr", v)
    if isinstance(v, (list, tuple)):
        return ("list", [project(x) for x in v])
    if isinstance(v, sym.Expr):
        return ("sym", v)
    if type(v).__name__ == "RegRefTransform":
        return ("rrt", v)
    return ("other", repr(v))


# ---- float evaluation with a forward error bound: returns (value, err)
_FN = {
    "sin": (math.sin, lambda x: abs(math.cos(x))), "cos": (math.cos, lambda x: abs(math.sin(x))),
    "tan": (math.tan, lambda x: 1 + math.tan(x) ** 2),
    "arcsin": (math.asin, lambda x: 1 / math.sqrt(max(1 - x * x, 1e-300))),
    "arccos": (math.acos, lambda x: 1 / math.sqrt(max(1 - x * x, 1e-300))),
    "arctan": (math.atan, lambda x: 1 / (1 + x * x)),
    "sinh": (math.sinh, lambda x: math.cosh(x)), "cosh": (math.cosh, lambda x: abs(math.sinh(x))),
    "tanh": (math.tanh, lambda x: 1 - math.tanh(x) ** 2),
    "arcsinh": (math.asinh, lambda x: 1 / math.sqrt(x * x + 1)),
    "arccosh": (math.acosh, lambda x: 1 / math.sqrt(max(x * x - 1, 1e-300))),
    "arctanh": (math.atanh, lambda x: 1 / max(1 - x * x, 1e-300)),
    "sqrt": (math.sqrt, lambda x: 0.5 / math.sqrt(max(x, 1e-300))),
    "log": (math.log, lambda x: 1 / abs(x)), "exp": (math.exp, lambda x: math.exp(x)),
}


class NotComparable(Exception):
    pass


def num_of(v):
    """exact spec number -> python number (Fraction-exact where representable)"""
    re, im = Q(v["re"]), Q(v["im"])
    if v["k"] == "complex":
        return complex(float(re), float(im))
    if v["k"] == "int" and re.denominator == 1:
        return int(re)
    return float(re)


def arith(op, a, ea, b, eb):
    try:
        if op == "+":
            r = a + b
            e = ea + eb
        elif op == "-":
            r = a - b
            e = ea + eb
        elif op == "*":
            r = a * b
            e = abs(a) * eb + abs(b) * ea
        elif op == "/":
            r = a / b
            e = ea / abs(b) + abs(a) * eb / (abs(b) ** 2)
        elif op == "**":
            r = a ** b
            if isinstance(r, complex) and not isinstance(a, complex) and not isinstance(b, complex):
                raise NotComparable("negative base with fractional exponent")
            e = 0.0
            if a != 0:
                e = abs(b) * abs(r) / abs(a) * ea
                if eb:
                    e += abs(cmath.log(a)) * abs(r) * eb
        else:
            raise NotComparable(op)
    except (ZeroDivisionError, OverflowError, ValueError) as ex:
        raise NotComparable(str(ex))
    if isinstance(r, int) and not isinstance(r, bool) and abs(r) >= 2 ** 63:
        # the property is quantified over values within 64-bit integer range: NumPy's integers wrap around here, also when
        # the out-of-range value is only an intermediate result
        raise NotComparable("integer (intermediate) result beyond the 64-bit range")
    return r, e + abs(r) * 2 * U


EXTRA_ATOMS = {}       # per-case opaque literals (index -> value), set by the caller around a comparison
ATOMS = {"negzero": -0.0, "subnormal": 5e-324, "tiny": 1e-300, "huge": 1e300, "mhuge": -1e300, "i62": 2 ** 62, "mi63": -2 ** 63,
         "i63": 2 ** 63, "i64m1": 2 ** 64 - 1, "i70": 2 ** 70 + 7,
         "nearpi": 3.14159, "pihalf_prev": math.nextafter(math.pi / 2, 0), "fivepisixth": 5 * math.pi / 6, "pi": math.pi, "mquarterpi_near": -0.7854,
         "third": 1 / 3, "e": math.e, "sqrt2_next": math.nextafter(math.sqrt(2), 2)}


def eval_term(t, env=None):
    """closed term of the spec (or expression AST with env: name -> python number / list) -> (value, err)"""
    k = t["t"]
    if k == "atom":
        x = EXTRA_ATOMS[t["a"]] if t["a"] in EXTRA_ATOMS else ATOMS[t["a"]]
        return x, abs(x) * U
    if k == "val":
        v = t["v"]
        if v.get("x"):
            x = num_of(v)
            return x, abs(x) * U
        return eval_term(v["term"], env)
    if k == "num":
        x = num_of(t["v"])
        return x, abs(x) * U
    if k == "int":
        return float(t["n"]) if False else t["n"], 0.0
    if k == "flt":
        x = float(Fraction(t["n"], t["d"]))
        return x, abs(x) * U
    if k == "cpx":
        x = complex(float(Q(t["re"])), float(Q(t["im"])))
        return x, abs(x) * U
    if k == "pi":
        return math.pi, math.pi * U
    if k in ("par", "reg", "var"):
        key = t["p"] if k == "par" else ("q%d" % t["n"] if k == "reg" else t["x"])
        if env is None or key not in env:
            raise NotComparable("free symbol " + key)
        x = env[key]
        return x, abs(x) * U
    if k == "idx":
        i, _ = eval_term(t["e"], env)
        x = env[t["x"]][int(i)]
        return x, abs(x) * U
    if k in ("brk", "pos"):
        return eval_term(t["a"], env)
    if k == "neg":
        a, ea = eval_term(t["a"], env)
        return -a, ea
    if k == "bin":
        a, ea = eval_term(t["l"], env)
        b, eb = eval_term(t["r"], env)
        return arith(t["op"], a, ea, b, eb)
    if k == "fn":
        a, ea = eval_term(t["a"], env)
        if isinstance(a, complex):
            raise NotComparable("complex function argument")
        f, d = _FN[t["f"]]
        try:
            r = f(a)
            return r, d(a) * ea + abs(r) * 4 * U
        except (ValueError, OverflowError) as ex:
            raise NotComparable(str(ex))
    raise NotComparable("term " + k)


ATOL = 1e-13     # absolute floor: a result that cancels to ~0 in exact arithmetic carries float noise of this order for O(1)..O(100) operands


def close(real, want, err, atol=ATOL):
    if isinstance(real, complex) or isinstance(want, complex):
        d = abs(complex(real) - complex(want))
    else:
        d = abs(real - want)
    if not (d == d) or math.isinf(abs(want)) or math.isinf(d):
        return False
    return d <= RTOL * abs(want) + 16 * err + atol + 1e-300


def compare_number(spec, real, err=0.0):
    """spec: exact/inexact numeric spec value; real: python value. Returns None or a reason string."""
    k, x = project(real)
    if k != spec["k"]:
        return "kind %s, specification says %s" % (k, spec["k"])
    if spec["x"]:
        re, im = Q(spec["re"]), Q(spec["im"])
        if k == "int":
            return None if (im == 0 and re == x) else "value %r, specification says %s" % (x, re)
        want = complex(float(re), float(im)) if k == "complex" else float(re)
        w_err = abs(want) * U
    else:
        want, w_err = eval_term(spec["term"])
        if k == "int":
            if abs(want) >= 2 ** 63 and spec["term"].get("t") != "atom":
                return None          # computed outside the 64-bit integer range the property is quantified over (a literal is compared)
            return None if x == want else "value %r, specification says %r" % (x, want)
        if k == "complex":
            want = complex(want)
        elif isinstance(want, complex):
            return "specification term is complex-valued for kind %s" % k
    is_atom = (not spec["x"]) and spec["term"].get("t") == "atom"
    if close(x, want, max(err, w_err), atol=0.0 if is_atom else ATOL):
        return None
    return "value %r, specification says %r (tolerance 1e-12 relative + %.3g)" % (x, want, 16 * max(err, w_err))
