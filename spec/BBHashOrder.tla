--------------------------- MODULE BBHashOrder ---------------------------
(* The places where the implementation iterates over a SET (of symbols, of modes) to build an  *)
(* output, with the iteration order left arbitrary (any permutation), as PYTHONHASHSEED makes   *)
(* it.  C19 demands that loading and serialising are functions of the script, so every output   *)
(* must be the same for every permutation.                                                      *)
(*   site A  mode map of an included program: callee modes paired with the call's modes         *)
(*           ModeOrder = "sorted" (intended / as fixed)   |  "iteration" (as found)             *)
(*   site B  braces around template parameters in a serialised expression                       *)
(*           BraceMethod = "symbolwise" (intended / as fixed) | "textual" (as found: one         *)
(*           str.replace per parameter name, in iteration order)                                 *)
(*   site C  the register order of a transform: free by the property, but always paired with     *)
(*           the function (the function takes its values in the listed order)                    *)
EXTENDS Integers, Sequences, FiniteSets
CONSTANTS ModeOrder, BraceMethod

PermsOf(S) == {f \in [1..Cardinality(S) -> S] : \A a, b \in 1..Cardinality(S) : a # b => f[a] # f[b]}
SortedSeq(S) == CHOOSE f \in PermsOf(S) : \A a, b \in 1..Cardinality(S) : a < b => f[a] < f[b]

\* ---- site A
ModeMap(callee, call, ord) == LET from == IF ModeOrder = "sorted" THEN SortedSeq(callee) ELSE ord
                              IN [m \in callee |-> call[CHOOSE i \in 1..Len(from) : from[i] = m]]
Renamed(ops, callee, call, ord) == [i \in 1..Len(ops) |-> [j \in 1..Len(ops[i]) |-> ModeMap(callee, call, ord)[ops[i][j]]]]
SiteADeterministic(ops, callee, call) == \A o1, o2 \in PermsOf(callee) : Renamed(ops, callee, call, o1) = Renamed(ops, callee, call, o2)

\* ---- site B: text as a sequence of characters (strings of length 1)
RECURSIVE ReplaceAll(_, _, _)
StartsWith(s, p) == Len(s) >= Len(p) /\ SubSeq(s, 1, Len(p)) = p
ReplaceAll(s, pat, rep) == IF s = <<>> THEN <<>>
                           ELSE IF StartsWith(s, pat) THEN rep \o ReplaceAll(SubSeq(s, Len(pat) + 1, Len(s)), pat, rep)
                           ELSE <<Head(s)>> \o ReplaceAll(Tail(s), pat, rep)
Braced(nm) == <<"{">> \o nm \o <<"}">>
RECURSIVE Textual(_, _, _)
Textual(text, ord, i) == IF i > Len(ord) THEN text ELSE Textual(ReplaceAll(text, ord[i], Braced(ord[i])), ord, i + 1)
\* an expression is a sequence of items: [sym |-> name] or [txt |-> chars]; printing it plainly and bracing symbol-wise
Plain(items) == LET RECURSIVE F(_) F(i) == IF i > Len(items) THEN <<>> ELSE (IF "sym" \in DOMAIN items[i] THEN items[i].sym ELSE items[i].txt) \o F(i + 1) IN F(1)
Symbolwise(items) == LET RECURSIVE F(_) F(i) == IF i > Len(items) THEN <<>> ELSE (IF "sym" \in DOMAIN items[i] THEN Braced(items[i].sym) ELSE items[i].txt) \o F(i + 1) IN F(1)
SymsOf(items) == {items[i].sym : i \in {j \in 1..Len(items) : "sym" \in DOMAIN items[j]}}
Printed(items, ord) == IF BraceMethod = "symbolwise" THEN Symbolwise(items) ELSE Textual(Plain(items), ord, 1)
SiteBDeterministic(items) == \A o1, o2 \in PermsOf(SymsOf(items)) : Printed(items, o1) = Printed(items, o2)
SiteBCorrect(items) == \A o \in PermsOf(SymsOf(items)) : Printed(items, o) = Symbolwise(items)

\* ---- site C: a transform lists its registers in some order; the function reads its arguments in that order
TransformValue(regorder, coef, meas) == LET RECURSIVE F(_) F(i) == IF i > Len(regorder) THEN 0 ELSE coef[regorder[i]] * meas[regorder[i]] + F(i + 1) IN F(1)
SiteCPaired(regs, coef, meas) == \A o1, o2 \in PermsOf(regs) : TransformValue(o1, coef, meas) = TransformValue(o2, coef, meas)
=============================================================================
