---------------------------- MODULE LexProd ----------------------------
(* C14.2: the shipped lexer ATN and the lexer rules of blackbird.g4 recognise, rule by rule, *)
(* the same strings.  TLC explores the product of the two subset automata over the          *)
(* character classes induced by every character set of both sides.  The product is finite,  *)
(* so the two invariants hold for ALL character strings.                                    *)
EXTENDS Integers, Sequences, FiniteSets, TLC, Json
A == INSTANCE LexATNData
G == INSTANCE LexG4Data
ATN == INSTANCE BBATN WITH EpsSucc <- A!EpsSucc, RuleSucc <- A!RuleSucc, AtomSucc <- A!AtomSucc,
                           StopRule <- A!StopRule, D <- 1000
R == INSTANCE BBRegex WITH Body <- G!LBody
VARIABLES a, g, w            \* w: a shortest class string leading here (hidden by the VIEW)
vars == <<a, g, w>>

TopRules == {i \in 1..Len(G!LBody) : ~G!IsFragment[i]}
GStep(C, ch) == UNION {{<<c[1], p[2]>> : p \in {q \in R!LFInline(c[2]) : ch \in q[1]}} : c \in C}
GAcc(C) == {c[1] : c \in {d \in C : R!Nullable(d[2])}}

Init == a = ATN!Start(A!StartState) /\ g = {<<i, G!LBody[i]>> : i \in TopRules} /\ w = <<>>
Next == \E ch \in 0..(A!NClasses-1) :
          LET na == ATN!Step(a, ch) ng == GStep(g, ch)
          IN (na # {} \/ ng # {}) /\ a' = na /\ g' = ng /\ w' = Append(w, ch)

View == <<a, g>>
Emit == PrintT(<<"LEXW", ToJson(w)>>)
SameLive == (a = {}) <=> (g = {})                 \* same viable prefixes
SameAccepting == ATN!AcceptRules(a) = GAcc(g)     \* same SET of rules accepting the string read so far
=============================================================================
