----------------------------- MODULE MC_C11 -----------------------------
(* C11: exactly one fault injected into otherwise valid scripts: every fault class of the     *)
(* property in every syntactic slot, after 0..N-1 valid items.  (Include-call faults: MC_C07.) *)
EXTENDS MC_Load
I(n) == [t |-> "int", n |-> n]
F(n, d) == [t |-> "flt", n |-> n, d |-> d]
Var(x) == [t |-> "var", x |-> x]
NoArgs == [hasargs |-> FALSE, args |-> <<>>, kw |-> <<>>]
NoM == [name |-> ""] @@ NoArgs
Kw(k, v) == [k |-> k, v |-> v]
Stmt(op, ha, args, kw, modes, br) == [t |-> "stmt", op |-> op, hasargs |-> ha, args |-> args, kw |-> kw, modes |-> modes, br |-> br]
Bin(op, l, r) == [t |-> "bin", op |-> op, l |-> l, r |-> r]
Cpx(a, b) == [t |-> "cpx", re |-> <<a, 1>>, im |-> <<b, 1>>]
G(args, kw, modes) == Stmt("G", TRUE, args, kw, modes, "none")
For(ty, v, hdr, body) == [t |-> "for", ty |-> ty, x |-> v, hdr |-> hdr, body |-> body]
Vals(xs) == [t |-> "vals", br |-> "sq", xs |-> xs]
SStr(s) == [t |-> "str", s |-> s]

Base == [name |-> "faulty", version |-> "1.0", target |-> NoM, type |-> NoM, incs |-> <<>>, body |-> <<>>]
Metas == { Base,
           [Base EXCEPT !.target = [name |-> "dev", hasargs |-> TRUE, args |-> <<>>, kw |-> <<Kw("shots", I(3)), Kw("x", Var("u"))>>]],
           [Base EXCEPT !.type = [name |-> "foo", hasargs |-> TRUE, args |-> <<>>, kw |-> <<Kw("l", [t |-> "lst", xs |-> <<I(1), Var("u")>>])>>]] }
Pre == << [t |-> "arr", ty |-> "int", x |-> "A", shape |-> <<>>, rows |-> << <<I(0), I(1), I(2)>> >>],
          [t |-> "var", ty |-> "str", x |-> "s", e |-> SStr("txt")],
          [t |-> "var", ty |-> "float", x |-> "f", e |-> F(3, 2)],
          [t |-> "arr", ty |-> "complex", x |-> "Z", shape |-> <<>>, rows |-> << <<Cpx(1, 2), Cpx(0, 2)>> >>] >>
Good == { G(<<F(1, 2)>>, <<Kw("k", I(1))>>, <<I(0)>>), Stmt("MeasureX", FALSE, <<>>, <<>>, <<I(1)>>, "none"),
          [t |-> "var", ty |-> "int", x |-> "m", e |-> I(2)],
          For("int", "i", [t |-> "range", a |-> 0, b |-> 2, c |-> 0, hasc |-> FALSE], <<G(<<Var("i")>>, <<>>, <<Var("i")>>)>>),
          \* loops that contribute nothing (an empty range, with and without step): whatever follows is still checked
          For("int", "i", [t |-> "range", a |-> 2, b |-> 2, c |-> 0, hasc |-> FALSE], <<G(<<Var("i")>>, <<>>, <<Var("i")>>)>>),
          For("float", "x", [t |-> "range", a |-> 3, b |-> 1, c |-> 2, hasc |-> TRUE], <<G(<<Var("x")>>, <<>>, <<I(0)>>)>>) }
Undefined == {
  G(<<Var("u")>>, <<>>, <<I(0)>>), G(<<Bin("*", I(2), Var("u"))>>, <<>>, <<I(0)>>), G(<<>>, <<Kw("k", Var("u"))>>, <<I(0)>>),
  G(<<>>, <<Kw("l", [t |-> "lst", xs |-> <<I(1), Var("u")>>])>>, <<I(0)>>), G(<<>>, <<>>, <<Var("u")>>), G(<<>>, <<>>, <<I(0), Var("u")>>),
  G(<<[t |-> "idx", x |-> "A", e |-> Var("u")]>>, <<>>, <<I(0)>>), G(<<[t |-> "idx", x |-> "U", e |-> I(0)]>>, <<>>, <<I(0)>>),
  G(<<>>, <<>>, <<[t |-> "idx", x |-> "U", e |-> I(1)]>>),
  For("int", "i", Vals(<<I(1), Var("u")>>), <<G(<<Var("i")>>, <<>>, <<I(0)>>)>>),
  For("int", "i", [t |-> "range", a |-> 0, b |-> 2, c |-> 0, hasc |-> FALSE], <<G(<<Var("u")>>, <<>>, <<Var("i")>>)>>),
  For("int", "i", [t |-> "range", a |-> 0, b |-> 2, c |-> 0, hasc |-> FALSE], <<G(<<Var("i")>>, <<>>, <<I(0)>>), G(<<>>, <<Kw("k", Var("u"))>>, <<Var("i")>>)>>),
  [t |-> "var", ty |-> "float", x |-> "v", e |-> Var("u")], [t |-> "var", ty |-> "float", x |-> "v", e |-> Bin("+", Var("f"), Var("u"))],
  [t |-> "arr", ty |-> "float", x |-> "B", shape |-> <<>>, rows |-> << <<Var("u"), F(1, 2)>> >>],
  [t |-> "arr", ty |-> "float", x |-> "B", shape |-> <<>>, rows |-> << <<F(1, 2)>>, <<Bin("*", I(2), Var("u"))>> >>],
  G(<<Var("i")>>, <<>>, <<I(0)>>) }                                                      \* a loop variable used outside any loop
ReservedDecl == {[t |-> "var", ty |-> "float", x |-> nm, e |-> F(1, 2)] : nm \in {"q0", "q12", "name", "version", "target", "type"}}
                \cup {[t |-> "arr", ty |-> "int", x |-> nm, shape |-> <<>>, rows |-> << <<I(1), I(2)>> >>] : nm \in {"q1", "name", "version", "target", "type"}}
BadMode == { G(<<>>, <<>>, <<F(1, 2)>>), G(<<>>, <<>>, <<F(2, 1)>>), G(<<>>, <<>>, <<Cpx(0, 2)>>), G(<<>>, <<>>, <<Var("s")>>), G(<<>>, <<>>, <<Var("f")>>),
             G(<<>>, <<>>, <<Bin("/", I(4), I(2))>>), Stmt("G", TRUE, <<>>, <<>>, <<I(0), F(3, 2)>>, "sq"),
             Stmt("MeasureX", FALSE, <<>>, <<>>, <<Bin("*", Var("f"), I(2))>>, "par"),
             For("float", "x", Vals(<<F(1, 2)>>), <<G(<<>>, <<>>, <<Var("x")>>)>>) }
ComplexIntoReal == { [t |-> "var", ty |-> "int", x |-> "c", e |-> Cpx(1, 2)], [t |-> "var", ty |-> "float", x |-> "c", e |-> Cpx(0, 2)],
                     [t |-> "var", ty |-> "int", x |-> "c", e |-> Bin("*", [t |-> "brk", a |-> Cpx(1, 1)], [t |-> "brk", a |-> Cpx(1, -1)])],
                     [t |-> "var", ty |-> "float", x |-> "c", e |-> Bin("*", Cpx(0, 2), Cpx(0, 2))],
                     [t |-> "var", ty |-> "float", x |-> "c", e |-> Bin("+", Var("f"), Cpx(0, 1))],
                     \* a whole complex array (bare, negated, squared, through a function of it) assigned to a real scalar-typed name
                     [t |-> "var", ty |-> "float", x |-> "c", e |-> Var("Z")], [t |-> "var", ty |-> "int", x |-> "c", e |-> [t |-> "neg", a |-> Var("Z")]],
                     [t |-> "var", ty |-> "float", x |-> "c", e |-> Bin("**", Var("Z"), I(2))], [t |-> "var", ty |-> "float", x |-> "c", e |-> Bin("*", Var("Z"), Var("Z"))],
                     [t |-> "var", ty |-> "float", x |-> "c", e |-> [t |-> "idx", x |-> "Z", e |-> I(1)]],
                     [t |-> "arr", ty |-> "float", x |-> "C", shape |-> <<>>, rows |-> << <<F(1, 2), Cpx(0, 2)>> >>],
                     [t |-> "arr", ty |-> "int", x |-> "C", shape |-> <<>>, rows |-> << <<I(1)>>, <<Bin("*", Cpx(0, 1), I(2))>> >>] }
BadLoopValue == { For("int", "i", Vals(<<I(1), F(5, 2)>>), <<G(<<Var("i")>>, <<>>, <<I(0)>>)>>),
                  For("int", "i", Vals(<<I(1), SStr("a")>>), <<G(<<Var("i")>>, <<>>, <<I(0)>>)>>),
                  For("int", "i", Vals(<<Cpx(0, 1)>>), <<G(<<Var("i")>>, <<>>, <<I(0)>>)>>),
                  For("str", "w", Vals(<<SStr("a"), I(3)>>), <<G(<<Var("w")>>, <<>>, <<I(0)>>)>>),
                  For("float", "x", Vals(<<F(1, 2), SStr("b")>>), <<G(<<Var("x")>>, <<>>, <<I(0)>>)>>),
                  For("float", "x", [t |-> "vals", br |-> "none", xs |-> <<Var("s")>>], <<G(<<Var("x")>>, <<>>, <<I(0)>>)>>),
                  For("bool", "b", Vals(<<[t |-> "bool", b |-> TRUE], SStr("x")>>), <<G(<<Var("b")>>, <<>>, <<I(0)>>)>>) }
Faults == Undefined \cup ReservedDecl \cup BadMode \cup ComplexIntoReal \cup BadLoopValue
Items == Good \cup Faults
\* every fault must be refused by the specification itself (non-vacuity of the menu)
FaultRefused == (Over /\ \E i \in 1..Len(script.body) : script.body[i] \in Faults) => S.res.k = "raise"
=============================================================================
