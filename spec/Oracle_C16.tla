---------------------------- MODULE Oracle_C16 ----------------------------
(* Batch oracle for harness-supplied programs (longer, over more wires than the exhaustive     *)
(* bound of MC_C16).  For each case the edge set is closed under composition step by step (the *)
(* relation is a state variable, so every step works on a concrete set); when the fixpoint is  *)
(* reached TLC checks the graph specification's invariants on it and prints the reachability   *)
(* relation that to_DiGraph's result is compared with.                                         *)
EXTENDS BBGraph, TLC, Json, IOUtils
Cases == JsonDeserialize(IOEnv.CASE_FILE)
VARIABLES k, ops, R, done
OpsOf(c) == [i \in 1..Len(c.ops) |-> [name |-> c.ops[i].name, modes |-> c.ops[i].modes, args |-> c.ops[i].args,
                                      regs |-> {c.ops[i].regs[j] : j \in 1..Len(c.ops[i].regs)}]]
Init == k \in 1..Len(Cases) /\ ops = OpsOf(Cases[k]) /\ R = Edges(ops) /\ done = FALSE
Compose == R \cup {<<e[1], f[2]>> : <<e, f>> \in {x \in R \X R : x[1][2] = x[2][1]}}
Next == ~done /\ (IF Compose = R THEN done' = TRUE /\ UNCHANGED R ELSE R' = Compose /\ UNCHANGED done) /\ UNCHANGED <<k, ops>>
EdgesForward == \A e \in R : e[1] < e[2]
ReachIffChain == done => \A i, j \in Idx(ops) : i # j => (<<i, j>> \in R <=> (i < j /\ ChainFrom(ops, i, j)))
Emit == done => PrintT(<<"ORACLE", ToJson([k |-> k, reach |-> R])>>)
=============================================================================
