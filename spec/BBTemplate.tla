---------------------------- MODULE BBTemplate ----------------------------
(* Templates: textual substitution of parameter values into a script (Subst), the parameter   *)
(* names a script writes (WrittenParams), and the C04 statement relating them to              *)
(* Instantiate (BBLoad): instantiating the loaded template = loading the substituted text.    *)
EXTENDS BBDenote

\* an exact value as a parenthesised literal expression
ValLit(v) == LET mag == IF v.re[1] >= 0 THEN v.re ELSE QNeg(v.re)
                 lit == IF v.k = "int" THEN [t |-> "int", n |-> mag[1]] ELSE [t |-> "flt", n |-> mag[1], d |-> mag[2]]
             IN IF v.k = "complex" THEN [t |-> "brk", a |-> [t |-> "val", v |-> v]]        \* one COMPLEX token (it carries its own signs)
                ELSE [t |-> "brk", a |-> IF v.re[1] >= 0 THEN lit ELSE [t |-> "neg", a |-> lit]]
RECURSIVE SubstP(_, _)
SubstP(e, env) == CASE e.t = "par" -> (IF Has(env, e.p) THEN ValLit(Get(env, e.p)) ELSE e)
                    [] e.t = "idx" -> [e EXCEPT !.e = SubstP(e.e, env)]
                    [] e.t \in {"brk", "neg", "pos", "fn"} -> [e EXCEPT !.a = SubstP(e.a, env)]
                    [] e.t = "bin" -> [e EXCEPT !.l = SubstP(e.l, env), !.r = SubstP(e.r, env)]
                    [] OTHER -> e
SubstPV(v, env) == IF v.t = "lst" THEN [v EXCEPT !.xs = [i \in 1..Len(v.xs) |-> SubstP(v.xs[i], env)]] ELSE SubstP(v, env)
SubstPStmt(st, env) == [st EXCEPT !.args = [i \in 1..Len(st.args) |-> SubstP(st.args[i], env)],
                                  !.kw = [i \in 1..Len(st.kw) |-> [k |-> st.kw[i].k, v |-> SubstPV(st.kw[i].v, env)]]]
IsWhole(it) == it.t = "arr" /\ Len(it.rows) = 1 /\ Len(it.rows[1]) = 1 /\ it.rows[1][1].t = "par" /\ Len(it.shape) = 2
ElemName(p, r, c) == p \o "_" \o ToString(r - 1) \o "_" \o ToString(c - 1)
SubstItem(it, env) ==
  CASE it.t = "var" -> [it EXCEPT !.e = SubstP(it.e, env)]
    [] it.t = "arr" -> IF IsWhole(it)
                       THEN [it EXCEPT !.rows = [r \in 1..it.shape[1] |-> [c \in 1..it.shape[2] |->
                                                   SubstP([t |-> "par", p |-> ElemName(it.rows[1][1].p, r, c)], env)]]]
                       ELSE [it EXCEPT !.rows = [r \in 1..Len(it.rows) |-> [c \in 1..Len(it.rows[r]) |-> SubstP(it.rows[r][c], env)]]]
    [] it.t = "stmt" -> SubstPStmt(it, env)
    [] it.t = "for" -> [it EXCEPT !.body = [i \in 1..Len(it.body) |-> SubstPStmt(it.body[i], env)],
                                  !.hdr = IF it.hdr.t = "vals" THEN [it.hdr EXCEPT !.xs = [i \in 1..Len(it.hdr.xs) |-> SubstP(it.hdr.xs[i], env)]] ELSE it.hdr]
Subst(s, env) == [s EXCEPT !.body = [i \in 1..Len(s.body) |-> SubstItem(s.body[i], env)]]

\* parameter names as written (whole-array parameters expanded per element)
RECURSIVE ParsE(_)
ParsE(e) == CASE e.t = "par" -> {e.p}
              [] e.t = "idx" -> ParsE(e.e)
              [] e.t \in {"brk", "neg", "pos", "fn"} -> ParsE(e.a)
              [] e.t = "bin" -> ParsE(e.l) \cup ParsE(e.r)
              [] OTHER -> {}
ParsV(v) == IF v.t = "lst" THEN UNION {ParsE(v.xs[i]) : i \in 1..Len(v.xs)} ELSE ParsE(v)
ParsStmt(st) == UNION {ParsE(st.args[i]) : i \in 1..Len(st.args)} \cup UNION {ParsV(st.kw[i].v) : i \in 1..Len(st.kw)}
ParsItem(it) ==
  CASE it.t = "var" -> ParsE(it.e)
    [] it.t = "arr" -> IF IsWhole(it) THEN {ElemName(it.rows[1][1].p, r, c) : r \in 1..it.shape[1], c \in 1..it.shape[2]}
                       ELSE UNION {UNION {ParsE(it.rows[r][c]) : c \in 1..Len(it.rows[r])} : r \in 1..Len(it.rows)}
    [] it.t = "stmt" -> ParsStmt(it)
    [] it.t = "for" -> UNION {ParsStmt(it.body[i]) : i \in 1..Len(it.body)}
                       \cup (IF it.hdr.t = "vals" THEN UNION {ParsE(it.hdr.xs[i]) : i \in 1..Len(it.hdr.xs)} ELSE {})
WrittenParams(s) == UNION {ParsItem(s.body[i]) : i \in 1..Len(s.body)}

\* values compared as numbers (an int 3 and a float 3.0 are the same value here)
SameNum(a, b) == IF IsExact(a) /\ IsExact(b) THEN a.re = b.re /\ a.im = b.im ELSE a = b
RECURSIVE SameVal(_, _)
SameVal(a, b) == CASE IsNum(a) /\ IsNum(b) -> SameNum(a, b)
                   [] a.k = "arr" /\ b.k = "arr" -> Len(a.rows) = Len(b.rows) /\ \A r \in 1..Len(a.rows) :
                          Len(a.rows[r]) = Len(b.rows[r]) /\ \A c \in 1..Len(a.rows[r]) : SameVal(a.rows[r][c], b.rows[r][c])
                   [] a.k = "list" /\ b.k = "list" -> Len(a.xs) = Len(b.xs) /\ \A i \in 1..Len(a.xs) : SameVal(a.xs[i], b.xs[i])
                   [] OTHER -> a = b
SameOp(a, b) == a.op = b.op /\ a.modes = b.modes /\ Len(a.args) = Len(b.args) /\ Len(a.kw) = Len(b.kw)
                /\ (\A i \in 1..Len(a.args) : SameVal(a.args[i], b.args[i]))
                /\ (\A i \in 1..Len(a.kw) : a.kw[i].k = b.kw[i].k /\ SameVal(a.kw[i].v, b.kw[i].v))
SameOps(p, q) == Len(p.ops) = Len(q.ops) /\ \A i \in 1..Len(p.ops) : SameOp(p.ops[i], q.ops[i])
SameVars(p, q) == Len(p.vars) = Len(q.vars) /\ \A i \in 1..Len(p.vars) : p.vars[i].n = q.vars[i].n /\ SameVal(p.vars[i].v, q.vars[i].v)
=============================================================================
