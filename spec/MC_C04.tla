----------------------------- MODULE MC_C04 -----------------------------
(* C04: template scripts built item by item; in every final state, for each environment:      *)
(*   Instantiate(Load(T), env) ~ Load(Subst(T, env)),  Params(Load(T)) = WrittenParams(T),     *)
(*   IsTemplate <=> Params # {}, an instance has no parameters, a missing value => ValueError. *)
EXTENDS BBTemplate, Json
CONSTANTS N, ItemMenu
I(n) == [t |-> "int", n |-> n]
F(n, d) == [t |-> "flt", n |-> n, d |-> d]
Var(x) == [t |-> "var", x |-> x]
Par(p) == [t |-> "par", p |-> p]
NoArgs == [hasargs |-> FALSE, args |-> <<>>, kw |-> <<>>]
NoM == [name |-> ""] @@ NoArgs
Kw(k, v) == [k |-> k, v |-> v]
Stmt(op, ha, args, kw, modes, br) == [t |-> "stmt", op |-> op, hasargs |-> ha, args |-> args, kw |-> kw, modes |-> modes, br |-> br]
Bin(op, l, r) == [t |-> "bin", op |-> op, l |-> l, r |-> r]
NegE(a) == [t |-> "neg", a |-> a]
Meta == [name |-> "tmpl", version |-> "1.0", target |-> NoM, type |-> NoM, incs |-> <<>>, body |-> <<>>]

Items == {
  Stmt("G", TRUE, <<Par("a")>>, <<>>, <<I(0)>>, "none"),
  Stmt("R", TRUE, <<Par("a")>>, <<Kw("k", Par("b"))>>, <<I(1)>>, "none"),
  Stmt("S", TRUE, <<>>, <<Kw("k", Bin("**", NegE(Par("a")), I(2))), Kw("l", Bin("+", Bin("*", Par("a"), Par("b")), I(1)))>>, <<I(0), I(1)>>, "sq"),
  Stmt("T", TRUE, <<Bin("*", [t |-> "pi"], Par("a")), Bin("/", Bin("*", I(2), Par("b")), I(3))>>, <<>>, <<I(0)>>, "none"),
  Stmt("U", TRUE, <<Par("a"), Bin("-", I(1), Par("a"))>>, <<>>, <<I(2)>>, "none"),
  Stmt("Vac", FALSE, <<>>, <<>>, <<I(2)>>, "none"),
  \* parameters whose names extend the name of the whole-array parameter {w} (and of {u})
  Stmt("Gw", TRUE, <<Par("w2")>>, <<Kw("k", Bin("*", Par("wscale"), I(2)))>>, <<I(1)>>, "none"),
  [t |-> "var", ty |-> "float", x |-> "sw", e |-> Bin("*", F(1, 2), Par("w2"))],
  \* free parameters whose names merely begin like the reserved p<digits> names
  Stmt("Gp", TRUE, <<Par("p1a")>>, <<Kw("k", Bin("+", Par("p0_bs"), I(1)))>>, <<I(2)>>, "none"),
  Stmt("Gs", TRUE, <<Var("sw")>>, <<>>, <<I(0)>>, "none"),
  [t |-> "var", ty |-> "float", x |-> "v", e |-> Par("a")],
  [t |-> "var", ty |-> "float", x |-> "w", e |-> Bin("+", Bin("*", I(2), Par("b")), I(1))],
  Stmt("Gvv", TRUE, <<Par("v"), Bin("*", Var("v"), I(2))>>, <<Kw("k", Par("sw"))>>, <<I(1)>>, "none"),      \* parameters {v}, {sw} named like the variables v, sw
  Stmt("Gl", TRUE, <<Bin("*", Par("lambda"), I(2))>>, <<Kw("k", Bin("+", Par("not"), Par("lambda")))>>, <<I(0)>>, "none"),      \* parameters named like Python keywords
  Stmt("Gv", TRUE, <<Var("v")>>, <<Kw("z", Bin("*", Var("w"), I(2)))>>, <<I(0)>>, "none"),
  [t |-> "arr", ty |-> "float", x |-> "M", shape |-> <<>>, rows |-> << <<Par("a"), F(1, 1)>>, <<F(2, 1), Par("b")>> >>],
  [t |-> "arr", ty |-> "float", x |-> "M2", shape |-> <<2, 3>>, rows |-> << <<F(1, 2), Par("c"), F(3, 1)>>, <<Par("d"), F(5, 1), Par("c")>> >>],
  [t |-> "arr", ty |-> "float", x |-> "W", shape |-> <<2, 2>>, rows |-> << <<Par("w")>> >>],
  [t |-> "arr", ty |-> "complex", x |-> "C", shape |-> <<1, 2>>, rows |-> << <<Par("u")>> >>],
  Stmt("K", TRUE, <<Var("M")>>, <<>>, <<I(0)>>, "none"),
  Stmt("K2", TRUE, <<>>, <<Kw("m", Var("M2"))>>, <<I(1)>>, "none"),
  Stmt("Kw", TRUE, <<Var("W")>>, <<Kw("u", Var("C"))>>, <<I(1)>>, "none"),
  [t |-> "for", ty |-> "int", x |-> "i", hdr |-> [t |-> "range", a |-> 0, b |-> 2, c |-> 0, hasc |-> FALSE],
     body |-> <<Stmt("L", TRUE, <<Bin("*", Par("a"), Var("i")), Var("i")>>, <<>>, <<Var("i")>>, "none")>>],
  [t |-> "for", ty |-> "float", x |-> "x", hdr |-> [t |-> "vals", br |-> "sq", xs |-> <<F(1, 2)>>],
     body |-> <<Stmt("Lx", TRUE, <<Bin("+", Var("x"), Par("e"))>>, <<>>, <<I(0)>>, "none")>>]
}
\* two assignments of exact values to every name that can occur (whole-array parameters per element)
Q2(n, d) == Num("float", QNorm(n, d), QZero)
Env1 == << [n |-> "a", v |-> Q2(3, 4)], [n |-> "b", v |-> Q2(-3, 2)], [n |-> "c", v |-> Q2(5, 8)], [n |-> "d", v |-> IntV(2)], [n |-> "e", v |-> Q2(1, 4)], [n |-> "w2", v |-> Q2(7, 10)], [n |-> "wscale", v |-> IntV(3)], [n |-> "p1a", v |-> Q2(9, 8)], [n |-> "v", v |-> Q2(7, 8)], [n |-> "lambda", v |-> Q2(3, 8)], [n |-> "not", v |-> IntV(2)], [n |-> "sw", v |-> Q2(-5, 8)], [n |-> "p0_bs", v |-> Q2(-3, 8)],
           [n |-> "w_0_0", v |-> Q2(1, 2)], [n |-> "w_0_1", v |-> Q2(3, 2)], [n |-> "w_1_0", v |-> Q2(5, 2)], [n |-> "w_1_1", v |-> Q2(-1, 1)],
           [n |-> "u_0_0", v |-> Num("complex", <<1, 1>>, <<2, 1>>)], [n |-> "u_0_1", v |-> Num("complex", <<7, 4>>, <<-1, 2>>)] >>
Env2 == << [n |-> "a", v |-> IntV(2)], [n |-> "b", v |-> Q2(1, 4)], [n |-> "c", v |-> Q2(-9, 4)], [n |-> "d", v |-> Q2(11, 2)], [n |-> "e", v |-> IntV(-3)], [n |-> "w2", v |-> Q2(-1, 2)], [n |-> "wscale", v |-> Q2(5, 4)], [n |-> "p1a", v |-> IntV(6)], [n |-> "v", v |-> IntV(-2)], [n |-> "lambda", v |-> IntV(5)], [n |-> "not", v |-> Q2(-7, 4)], [n |-> "sw", v |-> Q2(3, 16)], [n |-> "p0_bs", v |-> Q2(13, 4)],
           [n |-> "w_0_0", v |-> Q2(-1, 4)], [n |-> "w_0_1", v |-> IntV(0)], [n |-> "w_1_0", v |-> Q2(9, 2)], [n |-> "w_1_1", v |-> Q2(1, 8)],
           [n |-> "u_0_0", v |-> Q2(-5, 2)], [n |-> "u_0_1", v |-> IntV(4)] >>
Envs == {Env1, Env2}
Restrict(env, names) == SelectSeq(env, LAMBDA x : x.n \in names)

VARIABLES S, script, closed
vars == <<S, script, closed>>
NoFS(p) == NoFile
Open(m) == LET s == [m EXCEPT !.body = <<>>] IN [Begin(Fresh, s, <<>>) EXCEPT !.st[1].plan = SubSeq(Plan(s), 1, Len(Plan(s)) - 1)]
Init == script = Meta /\ S = Open(Meta) /\ closed = FALSE
AtEnd == S.res = None /\ Len(S.st) = 1 /\ Top(S).pc > Len(Top(S).plan)
Walk == S.res = None /\ ~AtEnd /\ S' = Step(S) /\ UNCHANGED <<script, closed>>
AddItem == AtEnd /\ ~closed /\ Len(script.body) < N /\ \E it \in ItemMenu :
             /\ script' = [script EXCEPT !.body = Append(@, it)]
             /\ S' = SetTop(S, [Top(S) EXCEPT !.plan = @ \o ItemPlan(it), !.script.body = Append(@, it)]) /\ UNCHANGED closed
Close == AtEnd /\ ~closed /\ closed' = TRUE /\ S' = SetTop(S, [Top(S) EXCEPT !.plan = Append(@, [a |-> "exitProgram"])]) /\ UNCHANGED script
Next == Walk \/ AddItem \/ Close

Done == S.res # None /\ S.res.k = "ok"
Prog == S.res.prog
ParamsAsWritten == Done => ParamSet(Prog) = WrittenParams(script)
TemplateIffParams == Done => (IsTemplate(Prog) <=> WrittenParams(script) # {})
Inst(env) == Instantiate(Prog, Restrict(env, ParamSet(Prog)))
TemplateCommutes == (Done /\ IsTemplate(Prog)) => \A env \in Envs :
                       LET a == Inst(env) b == Load(Subst(script, env)) IN
                         /\ a.k = "ok" /\ b.k = "ok" /\ SameOps(a.prog, b.prog) /\ SameVars(a.prog, b.prog)
                         /\ ParamSet(a.prog) = {} /\ ParamSet(b.prog) = {}
MissingValueRefused == (Done /\ IsTemplate(Prog)) => \A p \in ParamSet(Prog) :
                          LET r == Instantiate(Prog, Restrict(Env1, ParamSet(Prog) \ {p})) IN r.k = "raise" /\ r.cls = "ValueError"
NonTemplateRefused == (Done /\ ~IsTemplate(Prog)) => Instantiate(Prog, <<>>).k = "raise"
Emit == S.res # None => PrintT(<<"CASE", ToJson([s |-> script, out |-> S.res,
            inst |-> IF Done /\ IsTemplate(Prog)
                     THEN [e \in {1, 2} |-> LET env == IF e = 1 THEN Env1 ELSE Env2 IN
                             [env |-> Restrict(env, ParamSet(Prog)), prog |-> Inst(env).prog, subst |-> Subst(script, env)]]
                     ELSE <<>>])>>)
=============================================================================
