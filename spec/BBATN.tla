----------------------------- MODULE BBATN -----------------------------
(* Generic interpreter of a deserialized ANTLR ATN, as a pushdown automaton.                *)
(* A configuration is <<state, stack>>; the stack holds the follow states of the pending    *)
(* rule invocations.  Rule-stop states pop the stack (their context-free follow edges in    *)
(* the serialized ATN are ignored).  Tables are indexed by state number + 1.                 *)
EXTENDS Integers, Sequences, FiniteSets
CONSTANTS EpsSucc, RuleSucc, AtomSucc, StopRule, D   \* D: configurations deeper than D may not consume

IsStop(s) == StopRule[s+1] >= 0

EStep(c) ==
  LET s == c[1] st == c[2] IN
    IF IsStop(s) THEN (IF st # <<>> THEN {<<Head(st), Tail(st)>>} ELSE {})
    ELSE {<<t, st>> : t \in EpsSucc[s+1]}
         \cup {<<r[1], <<r[2]>> \o st>> : r \in RuleSucc[s+1]}

RECURSIVE Clo(_, _)
Clo(front, seen) ==
  IF front = {} THEN seen
  ELSE LET new == (UNION {EStep(c) : c \in front}) \ seen IN Clo(new, seen \cup new)
Closure(C) == Clo(C, C)

\* keep the configurations that can consume a symbol or that accept
Core(C) == {c \in C : AtomSucc[c[1]+1] # {} \/ (IsStop(c[1]) /\ c[2] = <<>>)}

Move(C, x) == UNION {{<<y[2], c[2]>> : y \in {z \in AtomSucc[c[1]+1] : x \in z[1]}}
                     : c \in {d \in C : Len(d[2]) <= D}}

Step(C, x) == Core(Closure(Move(C, x)))
Start(s0) == Core(Closure({<<s0, <<>>>>}))
Accepting(C) == {c \in C : IsStop(c[1]) /\ c[2] = <<>>}
AcceptRules(C) == {StopRule[c[1]+1] + 1 : c \in Accepting(C)}      \* 1-based rule numbers
=============================================================================
