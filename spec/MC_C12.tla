----------------------------- MODULE MC_C12 -----------------------------
(* C12: histories of loads in one process.  The tables VARt/PARAMSt of the listener machine   *)
(* persist between loads (that is the design of the implementation); TLC explores every       *)
(* sequence of up to K loads over a menu of scripts that succeed, are templates, declare       *)
(* p-arrays, or fail at each stage, and scripts whose metadata options mention names, and      *)
(* checks that every outcome equals the outcome from a pristine process.                      *)
(* Teeth: with ClearTablesAtLoadStart = FALSE (the code before the fix) TLC finds the history  *)
(* "load fails after 'float x = 0.5'; then 'target dev (a=x)' loads".                           *)
EXTENDS BBDenote, Json
CONSTANT K
I(n) == [t |-> "int", n |-> n]
F(n, d) == [t |-> "flt", n |-> n, d |-> d]
Var(x) == [t |-> "var", x |-> x]
NoArgs == [hasargs |-> FALSE, args |-> <<>>, kw |-> <<>>]
NoM == [name |-> ""] @@ NoArgs
Kw(k, v) == [k |-> k, v |-> v]
Stmt(op, ha, args, kw, modes, br) == [t |-> "stmt", op |-> op, hasargs |-> ha, args |-> args, kw |-> kw, modes |-> modes, br |-> br]
G(args, kw, modes) == Stmt("G", TRUE, args, kw, modes, "none")
Sc(nm, tg, ty, incs, body) == [name |-> nm, version |-> "1.0", target |-> tg, type |-> ty, incs |-> incs, body |-> body]
Opt(nm, k, v) == [name |-> nm, hasargs |-> TRUE, args |-> <<>>, kw |-> <<Kw(k, v)>>]
DeclX == [t |-> "var", ty |-> "float", x |-> "x", e |-> F(1, 2)]
P0 == [t |-> "arr", ty |-> "float", x |-> "p0", shape |-> <<>>, rows |-> << <<F(1, 2), F(3, 2)>> >>]
IncBad == [abs |-> FALSE, dirs |-> <<>>, file |-> "bad.xbb"]
IncOk == [abs |-> FALSE, dirs |-> <<>>, file |-> "sub.xbb"]
\* The included files may be edited between two loads.  The file system "as it is during epoch e" is the directory w<e> of the
\* specification's (constant) file system; the harness keeps ONE directory and rewrites its files when the epoch changes.
IncOuter == [abs |-> FALSE, dirs |-> <<>>, file |-> "outer.xbb"]
IncInner == [abs |-> FALSE, dirs |-> <<>>, file |-> "inner.xbb"]
BaseE(e) == <<"w" \o ToString(e)>>
Base == BaseE(1)
BadFile == Sc("bad", NoM, NoM, <<>>, <<DeclX, G(<<Var("nope")>>, <<>>, <<I(0)>>)>>)
SubFile == Sc("sub", NoM, NoM, <<>>, <<DeclX, G(<<Var("x")>>, <<>>, <<I(1)>>)>>)
OuterFile == Sc("outer", NoM, NoM, <<IncInner>>, <<Stmt("inner", FALSE, <<>>, <<>>, <<I(2)>>, "none"), G(<<I(5)>>, <<>>, <<I(1)>>)>>)
InnerFile == Sc("inner", NoM, NoM, <<>>, <<G(<<F(1, 4)>>, <<>>, <<I(0)>>)>>)
\* epoch 2: bad.xbb has been repaired, sub.xbb and the NESTED inner.xbb have other contents (outer.xbb is untouched)
BadFile2 == Sc("bad", NoM, NoM, <<>>, <<DeclX, G(<<Var("x")>>, <<>>, <<I(2)>>)>>)
SubFile2 == Sc("sub", NoM, NoM, <<>>, <<G(<<F(7, 2)>>, <<>>, <<I(1)>>), G(<<>>, <<>>, <<I(1)>>)>>)
InnerFile2 == Sc("inner", NoM, NoM, <<>>, <<G(<<F(3, 4)>>, <<>>, <<I(0)>>), G(<<I(1)>>, <<>>, <<I(0)>>)>>)
FilesE(e) == [bad |-> IF e = 1 THEN BadFile ELSE BadFile2, sub |-> IF e = 1 THEN SubFile ELSE SubFile2,
              outer |-> OuterFile, inner |-> IF e = 1 THEN InnerFile ELSE InnerFile2]
FS12(f) == IF \E e \in 1..2 : f.dirs = BaseE(e)
           THEN LET e == CHOOSE x \in 1..2 : f.dirs = BaseE(x) IN
                CASE f.file = "bad.xbb" -> FilesE(e).bad [] f.file = "sub.xbb" -> FilesE(e).sub
                  [] f.file = "outer.xbb" -> FilesE(e).outer [] f.file = "inner.xbb" -> FilesE(e).inner [] OTHER -> NoFile
           ELSE NoFile

Scripts == <<
  Sc("ok", NoM, NoM, <<>>, <<DeclX, G(<<Var("x")>>, <<>>, <<I(0)>>)>>),                                          \* 1 valid
  Sc("tmpl", NoM, NoM, <<>>, <<G(<<[t |-> "par", p |-> "p"]>>, <<>>, <<I(0)>>)>>),                               \* 2 template
  Sc("tdm", NoM, [name |-> "tdm"] @@ NoArgs, <<>>, <<P0, G(<<Var("p0")>>, <<>>, <<I(0)>>)>>),                     \* 3 tdm p-array
  [syntaxerr |-> TRUE],                                                                                          \* 4 fails at the syntax stage
  Sc("undef", NoM, NoM, <<>>, <<DeclX, [t |-> "var", ty |-> "int", x |-> "i", e |-> I(7)], G(<<Var("y")>>, <<>>, <<I(0)>>)>>),   \* 5 undefined name after declarations
  Sc("tyerr", NoM, NoM, <<>>, <<DeclX, [t |-> "var", ty |-> "int", x |-> "c", e |-> [t |-> "cpx", re |-> <<1, 1>>, im |-> <<2, 1>>]]>>),   \* 6 type error
  Sc("inloop", NoM, NoM, <<>>, <<[t |-> "for", ty |-> "int", x |-> "i", hdr |-> [t |-> "range", a |-> 0, b |-> 2, c |-> 0, hasc |-> FALSE],
                                  body |-> <<G(<<Var("i"), Var("y")>>, <<>>, <<Var("i")>>)>>]>>),                  \* 7 fails inside a loop (i bound)
  Sc("ininc", NoM, NoM, <<IncBad>>, <<G(<<>>, <<>>, <<I(0)>>)>>),                                                 \* 8 fails inside an include
  Sc("inmeta", Opt("dev", "a", Var("zz")), NoM, <<>>, <<G(<<>>, <<>>, <<I(0)>>)>>),                               \* 9 fails in the metadata
  Sc("probex", Opt("dev", "a", Var("x")), NoM, <<>>, <<G(<<>>, <<>>, <<I(0)>>)>>),                                \* 10 target option mentions x
  Sc("probei", NoM, Opt("foo", "b", Var("i")), <<>>, <<G(<<>>, <<>>, <<I(0)>>)>>),                                \* 11 type option mentions i
  Sc("probep", Opt("dev", "c", Var("p0")), NoM, <<>>, <<G(<<>>, <<>>, <<I(0)>>)>>),                               \* 12 option mentions p0
  Sc("probeq", Opt("dev", "d", [t |-> "par", p |-> "p"]), NoM, <<>>, <<G(<<>>, <<>>, <<I(0)>>)>>),                \* 13 option with {p}
  Sc("incok", NoM, NoM, <<IncOk>>, <<Stmt("sub", FALSE, <<>>, <<>>, <<I(3)>>, "none")>>),                         \* 14 include that works
  Sc("tmplfail", NoM, NoM, <<>>, <<G(<<[t |-> "par", p |-> "p"]>>, <<>>, <<I(0)>>), G(<<Var("y")>>, <<>>, <<I(0)>>)>>),   \* 15 parameter seen, then failure
  Sc("idxfail", NoM, NoM, <<>>, <<[t |-> "arr", ty |-> "float", x |-> "A", shape |-> <<>>, rows |-> << <<F(1, 2), F(3, 2), F(5, 2)>> >>],
                                  G(<<[t |-> "idx", x |-> "A", e |-> I(1)]>>, <<>>, <<I(0)>>), G(<<>>, <<>>, <<F(1, 2)>>)>>),        \* 16 indexes A, then fails (bad mode)
  Sc("idxother", NoM, NoM, <<>>, <<[t |-> "arr", ty |-> "float", x |-> "A", shape |-> <<>>, rows |-> << <<F(11, 1), F(12, 1)>>, <<F(13, 1), F(14, 1)>> >>],
                                   G(<<[t |-> "idx", x |-> "A", e |-> I(1)], [t |-> "idx", x |-> "A", e |-> I(3)]>>, <<>>, <<I(0)>>)>>),   \* 17 another A, indexed
  Sc("idxrange", NoM, NoM, <<>>, <<DeclX, [t |-> "arr", ty |-> "float", x |-> "A", shape |-> <<>>, rows |-> << <<F(1, 2), F(3, 2)>> >>],
                                   [t |-> "var", ty |-> "int", x |-> "i", e |-> I(7)], G(<<[t |-> "idx", x |-> "A", e |-> I(5)]>>, <<>>, <<I(0)>>)>>),   \* 18 index beyond the array (IndexError)
  Sc("nested", NoM, NoM, <<IncOuter>>, <<Stmt("outer", FALSE, <<>>, <<>>, <<I(4), I(3)>>, "sq")>>)                \* 19 include of a file that includes another
>>
HasIncs(i) == "syntaxerr" \notin DOMAIN Scripts[i] /\ Len(Scripts[i].incs) > 0
SyntaxOutcome == Raise("BSE", "syntax")
Pristine(i, e) == IF "syntaxerr" \in DOMAIN Scripts[i] THEN SyntaxOutcome ELSE LoadFrom(Fresh, Scripts[i], BaseE(e)).res

VARIABLES S, hist, cur, ep          \* ep: the epoch of the file system (files are edited between loads, never during one)
vars == <<S, hist, cur, ep>>
Init == S = Fresh /\ hist = <<>> /\ cur = 0 /\ ep = 1
Start == cur = 0 /\ Len(hist) < K /\ \E i \in 1..Len(Scripts) : \E e \in (IF HasIncs(i) THEN 1..2 ELSE {ep}) :
           /\ cur' = i /\ ep' = e /\ UNCHANGED hist
           /\ S' = IF "syntaxerr" \in DOMAIN Scripts[i] THEN [S EXCEPT !.res = SyntaxOutcome]    \* the listener never runs
                   ELSE Begin(S, Scripts[i], BaseE(e))
Walk == cur # 0 /\ S.res = None /\ S' = Step(S) /\ UNCHANGED <<hist, cur, ep>>
Finish == cur # 0 /\ S.res # None /\ hist' = Append(hist, [sid |-> cur, out |-> S.res, ep |-> ep]) /\ cur' = 0 /\ UNCHANGED ep
          /\ S' = [S EXCEPT !.res = None, !.st = <<>>]                                             \* the tables stay as the load left them
Next == Start \/ Walk \/ Finish

Independent == \A k \in 1..Len(hist) : SameOutcome(hist[k].out, Pristine(hist[k].sid, hist[k].ep)) /\ hist[k].out.k = Pristine(hist[k].sid, hist[k].ep).k
TablesCleanWhenIdle == (cur = 0 /\ ClearTablesAtLoadStart /\ Len(hist) > 0 /\ hist[Len(hist)].out.k = "ok") => S.V = <<>> /\ S.P = <<>>
Emit == (cur = 0 /\ Len(hist) = K) => PrintT(<<"HIST", ToJson(hist)>>)
EmitScripts == PrintT(<<"SCRIPTS", ToJson([i \in 1..Len(Scripts) |-> IF "syntaxerr" \in DOMAIN Scripts[i] THEN [syntaxerr |-> TRUE, body |-> <<>>] ELSE Scripts[i]])>>)
EmitFiles == PrintT(<<"FILES", ToJson([e1 |-> FilesE(1), e2 |-> FilesE(2)])>>)
ASSUME EmitScripts /\ EmitFiles
=============================================================================
