---------------------------- MODULE BBValues ----------------------------
(* Values of Blackbird expressions.  TLC has 32-bit integers and no floats, so numbers are   *)
(* exact rationals <<n, d>> (normalised, d > 0) for the real and imaginary part; a number    *)
(* that leaves the rational fragment (pi, elementary functions, fractional powers) is kept   *)
(* as a closed TERM whose numeric value is computed by the harness evaluator.                *)
(*   exact number   [k |-> "int"|"float"|"complex", x |-> TRUE,  re, im]                     *)
(*   inexact number [k |-> "float"|"complex",       x |-> FALSE, term]                       *)
(*   symbolic       [k |-> "sym", term]      (template parameters and measured registers)    *)
(*   [k |-> "str", s]  [k |-> "bool", b]  [k |-> "pname", s]  (tdm p-array passed by name)   *)
(*   [k |-> "arr", ty, rows]   rows: Seq(Seq(value))         [k |-> "list", xs]              *)
(*   [k |-> "raise", cls, id]  refusal (cls "BSE" = BlackbirdSyntaxError, else any exception)*)
(*   [k |-> "unspec"]          outside every property's quantifier: never compared           *)
EXTENDS Integers, Sequences, FiniteSets

Lim == 16384                      \* magnitudes above this leave the model (TLC would overflow)

RECURSIVE Gcd(_, _)
Gcd(a, b) == IF b = 0 THEN a ELSE Gcd(b, a % b)
Abs(x) == IF x < 0 THEN -x ELSE x
QNorm(n, d) == LET g == Gcd(Abs(n), Abs(d)) s == IF d < 0 THEN -1 ELSE 1 IN <<s * (n \div g), s * (d \div g)>>
QZero == <<0, 1>>
QOne == <<1, 1>>
\* Every operation checks that its inputs are small, so no product can overflow TLC's 32-bit
\* integers; a result may be big (it is still representable) and is poisoned on its next use.
Poison == <<0, 0>>
QBig(q) == q[2] = 0 \/ Abs(q[1]) > Lim \/ q[2] > Lim
QAdd(a, b) == IF QBig(a) \/ QBig(b) THEN Poison ELSE QNorm(a[1] * b[2] + b[1] * a[2], a[2] * b[2])
QNeg(a) == <<-a[1], a[2]>>
QSub(a, b) == QAdd(a, QNeg(b))
QMul(a, b) == IF QBig(a) \/ QBig(b) THEN Poison ELSE QNorm(a[1] * b[1], a[2] * b[2])
QInv(a) == IF QBig(a) \/ a[1] = 0 THEN Poison ELSE QNorm(a[2], a[1])
QIsInt(a) == a[2] = 1
QLt(a, b) == a[1] * b[2] < b[1] * a[2]          \* callers make sure both are small

Num(k, re, im) == [k |-> k, x |-> TRUE, re |-> re, im |-> im]
IntV(n) == Num("int", <<n, 1>>, QZero)
Flt(n, d) == Num("float", QNorm(n, d), QZero)
Inx(k, term) == [k |-> k, x |-> FALSE, term |-> term]
Sym(term) == [k |-> "sym", term |-> term]
Str(s) == [k |-> "str", s |-> s]
Bool(b) == [k |-> "bool", b |-> b]
PName(s) == [k |-> "pname", s |-> s]
Arr(ty, rows) == [k |-> "arr", ty |-> ty, rows |-> rows]
Lst(xs) == [k |-> "list", xs |-> xs]
Raise(cls, id) == [k |-> "raise", cls |-> cls, id |-> id]
Unspec == [k |-> "unspec"]
U(w) == [k |-> "unspec", why |-> w]      \* with the place in the specification that gave up (for coverage statistics)

IsNum(v) == v.k \in {"int", "float", "complex"}
IsExact(v) == IsNum(v) /\ v.x
IsRaise(v) == v.k = "raise"
IsBad(v) == v.k \in {"raise", "unspec"}
Rank(k) == CASE k = "int" -> 1 [] k = "float" -> 2 [] k = "complex" -> 3
KindOf(r) == CASE r = 1 -> "int" [] r = 2 -> "float" [] r = 3 -> "complex"
MaxKind(a, b) == KindOf(IF Rank(a) > Rank(b) THEN Rank(a) ELSE Rank(b))
VBig(v) == QBig(v.re) \/ QBig(v.im)
Guard(v) == IF IsExact(v) /\ VBig(v) THEN Unspec ELSE v

\* closed terms: what an inexact or symbolic value denotes
TNum(v) == [t |-> "num", v |-> v]
TermOf(v) == IF v.k = "sym" THEN v.term ELSE IF v.x THEN TNum(v) ELSE v.term
TBin(op, a, b) == [t |-> "bin", op |-> op, l |-> a, r |-> b]
TNeg(a) == [t |-> "neg", a |-> a]
TFn(f, a) == [t |-> "fn", f |-> f, a |-> a]
TPi == [t |-> "pi"]
TPar(p) == [t |-> "par", p |-> p]
TReg(n) == [t |-> "reg", n |-> n]

RECURSIVE ParsOf(_)
ParsOf(t) == CASE t.t = "par" -> {t.p}
               [] t.t = "bin" -> ParsOf(t.l) \cup ParsOf(t.r)
               [] t.t \in {"neg", "fn"} -> ParsOf(t.a)
               [] OTHER -> {}
RECURSIVE RegsOf(_)
RegsOf(t) == CASE t.t = "reg" -> {t.n}
               [] t.t = "bin" -> RegsOf(t.l) \cup RegsOf(t.r)
               [] t.t \in {"neg", "fn"} -> RegsOf(t.a)
               [] OTHER -> {}

\* ---- exact complex-rational arithmetic
CAdd(a, b) == [re |-> QAdd(a.re, b.re), im |-> QAdd(a.im, b.im)]
CSub(a, b) == [re |-> QSub(a.re, b.re), im |-> QSub(a.im, b.im)]
CMul(a, b) == [re |-> QSub(QMul(a.re, b.re), QMul(a.im, b.im)), im |-> QAdd(QMul(a.re, b.im), QMul(a.im, b.re))]
CIsZero(a) == a.re[1] = 0 /\ a.im[1] = 0
CInv(a) == LET m == QAdd(QMul(a.re, a.re), QMul(a.im, a.im)) IN
             [re |-> QMul(a.re, QInv(m)), im |-> QNeg(QMul(a.im, QInv(m)))]
SmallC(c) == ~QBig(c.re) /\ ~QBig(c.im)
RECURSIVE CPow(_, _)             \* n >= 0; result "big" flag to stop before TLC overflows
CPow(a, n) == IF n = 0 THEN [re |-> QOne, im |-> QZero, ok |-> TRUE]
              ELSE LET p == CPow(a, n - 1) IN
                   IF ~p.ok \/ ~SmallC(p) THEN [re |-> QZero, im |-> QZero, ok |-> FALSE]
                   ELSE LET m == CMul(p, a) IN [re |-> m.re, im |-> m.im, ok |-> TRUE]
=============================================================================
