---------------------------- MODULE Oracle_C17 ----------------------------
(* Batch oracle for harness-supplied templates (longer, over more modes and gate names than    *)
(* the families enumerated by MC_C17), each with an environment and a reordering.  TLC checks  *)
(* that the reordering keeps the order on every mode (otherwise the case is not an instance of *)
(* the property), that Match o Permute o Instantiate returns the environment, that every       *)
(* single structural edit is rejected, and prints the case in MC_C17's format for the replay.  *)
EXTENDS BBMatch, TLC, Json, IOUtils
Cases == JsonDeserialize(IOEnv.CASE_FILE)
VARIABLES k, T, P, want
Env(c) == c.env
Init == /\ k \in 1..Len(Cases)
        /\ T = Cases[k].tmpl
        /\ want = [p \in ParamsOf(Cases[k].tmpl) |-> Cases[k].env[p]]
        /\ P = Permute(Inst(Cases[k].tmpl, Cases[k].env), Cases[k].perm)
Next == UNCHANGED <<k, T, P, want>>
LegalReordering == IsTopo(AsGraphOps(Inst(T, Cases[k].env)), Cases[k].perm)
MatchInvertsInstantiation == Match(T, P) = want
Rename(i) == [P EXCEPT ![i].name = "Zgate"]
Remode(i) == [P EXCEPT ![i].modes = IF Len(@) = 1 THEN <<@[1] + 1>> ELSE <<@[2], @[1]>>]
SwapAdj(i) == [P EXCEPT ![i] = P[i + 1], ![i + 1] = P[i]]
Edits == [kind : {"rename", "remode"}, k : 1..Len(P)] \cup {x \in [kind : {"swap"}, k : 1..(Len(P) - 1)] :
             Shares(AsGraphOps(P), x.k, x.k + 1) /\ Label(P[x.k]) # Label(P[x.k + 1])}
Apply(x) == CASE x.kind = "rename" -> Rename(x.k) [] x.kind = "remode" -> Remode(x.k) [] x.kind = "swap" -> SwapAdj(x.k)
EditsRejected == \A x \in Edits : Match(T, Apply(x)) = MatchError
Emit == PrintT(<<"CASE", ToJson([t |-> [k |-> "random", n |-> k, f |-> <<>>], tmpl |-> T, env |-> want, perm |-> Cases[k].perm, prog |-> P,
                                 edits |-> {[x |-> x, prog |-> Apply(x)] : x \in Edits}])>>)
=============================================================================
