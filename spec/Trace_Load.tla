---------------------------- MODULE Trace_Load ----------------------------
(* Batch oracle and trace validator for the listener machine.  Each case is a script (with    *)
(* the files it includes) and, optionally, the events recorded from the REAL listener: one    *)
(* per callback, after it returned or raised, with the observable state (issuing listener's   *)
(* depth, number of operations so far, in-loop flag, names in the variable table, exception). *)
(* TLC runs BBLoad's Step on the script; every recorded event must be the next callback of     *)
(* the machine and agree with the machine's state after the step.  Steps the implementation   *)
(* performs inside one callback (loop header evaluation, binding and unbinding the loop        *)
(* variable) are silent steps, enabled only in those sub-states.  One verdict line per case:   *)
(* the machine's outcome (the oracle) and where, if anywhere, the trace left the machine.      *)
(* A case names the directory of its script twice: base (absolute) and rawbase (as spelled in  *)
(* the path given to load(), possibly relative to the process working directory).              *)
EXTENDS BBSerialize, Json, IOUtils
Cases == JsonDeserialize(IOEnv.CASE_FILE)
AllFiles == LET RECURSIVE F(_) F(i) == IF i > Len(Cases) THEN <<>> ELSE Cases[i].files \o F(i + 1) IN F(1)
TraceFS(f) == IF \E i \in 1..Len(AllFiles) : AllFiles[i].path = f
              THEN AllFiles[CHOOSE i \in 1..Len(AllFiles) : AllFiles[i].path = f].s ELSE NoFile

VARIABLES k, l, S, bad        \* case, next event, machine state, first mismatch ("" = none)
vars == <<k, l, S, bad>>
Ev == Cases[k].events
HasTrace == Len(Ev) > 0
Init == k \in 1..Len(Cases) /\ l = 1 /\ S = BeginAt(Fresh, Cases[k].s, Cases[k].rawbase, Cases[k].base) /\ bad = ""

Running == S.res = None
CurA == Instr(S).a
\* (IF rather than \/ : TLC evaluates every disjunct of a disjunction that occurs in an action)
InLoopSub == IF ~Running THEN FALSE ELSE IF CurA # "exitFor" THEN FALSE ELSE IF Top(S).loop = None THEN TRUE
             ELSE IF Top(S).loop.vi > Len(Top(S).loop.vals) THEN TRUE ELSE Top(S).loop.si = 0
Silent == InLoopSub /\ S' = Step(S) /\ UNCHANGED <<k, l, bad>>

\* which machine instruction an event name stands for
Expected(ev) == CASE ev = "exitDeclarename" -> {"declarename"} [] ev = "exitVersion" -> {"version"} [] ev = "exitTarget" -> {"target"}
                  [] ev = "exitDeclaretype" -> {"declaretype"} [] ev = "enterInclude" -> {"include"} [] ev = "enterProgram" -> {"enterProgram"}
                  [] ev = "exitExpressionvar" -> {"exprvar"} [] ev = "exitArrayvar" -> {"arrayvar"} [] ev = "exitStatement" -> {"stmt", "deferred", "exitFor"}
                  [] ev = "enterForloop" -> {"enterFor"} [] ev = "exitProgram" -> {"exitProgram"} [] OTHER -> {}
NamesOf(V) == {V[i].n : i \in 1..Len(V)}
SetOf(s) == {s[i] : i \in 1..Len(s)}
\* the first clause that fails, or "" (total verdicts: the failing clause is named)
Mismatch(e, S1, S2) ==
  IF S2.res # None /\ S2.res.k = "unspec" THEN "unspecified"
  ELSE IF e.depth # Len(S1.st) THEN "depth"
  ELSE IF (e.exc # "") # (S2.res # None /\ S2.res.k = "raise") THEN "exception"
  ELSE IF e.exc # "" THEN (IF (S2.res.cls = "BSE") # (e.exc = "BlackbirdSyntaxError") /\ S2.res.cls = "BSE" THEN "exception-class" ELSE "")
  ELSE IF e.ev = "exitProgram" THEN ""
  ELSE IF Len(S2.st) >= e.depth /\ Len(S2.st[e.depth].prog.ops) # e.nops THEN "nops"
  ELSE IF Len(S2.st) >= e.depth /\ S2.st[e.depth].inFor # e.in_for /\ e.ev # "enterInclude" THEN "in_for"
  ELSE IF NamesOf(S2.V) # SetOf(e.vars) THEN "vars"
  ELSE ""
Consume ==
  /\ HasTrace /\ bad = "" /\ l <= Len(Ev) /\ ~InLoopSub
  /\ LET e == Ev[l] IN
     IF ~Running
     THEN \* the load is over (an exception is unwinding): the remaining events must all carry it
          /\ bad' = (IF S.res.k = "unspec" THEN "unspecified" ELSE IF e.exc # "" /\ S.res.k = "raise" THEN "" ELSE "event-after-end")
          /\ l' = l + 1 /\ UNCHANGED <<k, S>>
     ELSE IF e.ev \in {"exitInclude", "exitForloop"}
     THEN \* returns of callbacks whose work the machine has already done step by step
          /\ bad' = (IF e.exc = "" THEN "" ELSE "exception") /\ l' = l + 1 /\ UNCHANGED <<k, S>>
     ELSE IF CurA \notin Expected(e.ev) \/ (CurA = "exitFor" /\ e.ev = "exitStatement" /\ Top(S).loop.si = 0)
     THEN bad' = "order:" \o CurA /\ l' = l + 1 /\ UNCHANGED <<k, S>>
     ELSE LET S2 == Step(S) IN /\ S' = S2 /\ bad' = Mismatch(e, S, S2) /\ l' = l + 1 /\ UNCHANGED k
\* without a trace (oracle only) or after a mismatch the machine just runs to the end
Free == (~HasTrace \/ bad # "") /\ Running /\ ~InLoopSub /\ S' = Step(S) /\ UNCHANGED <<k, l, bad>>
Next == Silent \/ Consume \/ Free
Done == ~Running /\ (~HasTrace \/ bad # "" \/ l > Len(Ev))
TraceVerdict == IF ~HasTrace THEN "none" ELSE IF bad # "" THEN bad ELSE "accepted"
\* for round-trip checks on harness-supplied scripts: is the program within C01's scope (every parameter occurs in an operation,
\* no array argument still contains a parameter)?
InScope == S.res.k = "ok" /\ AllParamsUsed(S.res.prog) /\ ~HasSymArray(S.res.prog)
           /\ (S.res.prog.type.name = "tdm" => \A i \in 1..Len(S.res.prog.vars) : ValPars(S.res.prog.vars[i].v) = {})
Emit == Done => PrintT(<<"ORACLE", ToJson([k |-> k, out |-> S.res, trace |-> TraceVerdict, at |-> l - 1, inscope |-> InScope])>>)
\* mechanism invariants evaluated on every step of every real trace
LoopVarScoped == (Running /\ Len(S.st) = 1 /\ CurA \in {"stmt", "exprvar", "arrayvar", "enterFor", "exitProgram"} /\ Top(S).loop = None)
                   => \A i \in 1..Len(Cases[k].s.body) : Cases[k].s.body[i].t = "for" =>
                        (~Has(S.V, Cases[k].s.body[i].x) \/ \E j \in 1..Len(Cases[k].s.body) : Cases[k].s.body[j].t \in {"var", "arr"} /\ Cases[k].s.body[j].x = Cases[k].s.body[i].x)
=============================================================================
