---------------------------- MODULE BBSerialize ----------------------------
(* What serialising a program must produce, as an abstract script (mirrors the structure of   *)
(* program.serialize: metadata with options, hoisted array declarations A0, A1, ..., the tdm  *)
(* variable block, one statement per operation, braces around template parameters).           *)
(* Numbers are written as literals that denote exactly the value ("val" literals): the        *)
(* substance is structure -- hoisting, naming, braces, order, p-array references.             *)
(*    RoundTrip:   Load(Serialize(p)) ~ p          Stationary: Serialize(Load(Serialize(p))) = Serialize(p) *)
EXTENDS BBTemplate

RECURSIVE TermExpr(_)
TermExpr(t) == CASE t.t = "num" -> [t |-> "val", v |-> t.v]
                 [] t.t = "pi" -> [t |-> "pi"]
                 [] t.t = "par" -> [t |-> "par", p |-> t.p]
                 [] t.t = "reg" -> [t |-> "reg", n |-> t.n]
                 [] t.t = "neg" -> [t |-> "neg", a |-> [t |-> "brk", a |-> TermExpr(t.a)]]
                 [] t.t = "fn" -> [t |-> "fn", f |-> t.f, a |-> TermExpr(t.a)]
                 [] t.t = "bin" -> [t |-> "bin", op |-> t.op, l |-> [t |-> "brk", a |-> TermExpr(t.l)], r |-> [t |-> "brk", a |-> TermExpr(t.r)]]

RECURSIVE ValExpr(_)
ValExpr(v) == CASE IsNum(v) -> [t |-> "val", v |-> v]
                [] v.k = "str" -> [t |-> "str", s |-> v.s]
                [] v.k = "bool" -> [t |-> "bool", b |-> v.b]
                [] v.k = "pname" -> [t |-> "var", x |-> v.s]
                [] v.k \in {"sym", "rrt"} -> TermExpr(v.term)
                [] v.k = "list" -> [t |-> "lst", xs |-> [i \in 1..Len(v.xs) |-> ValExpr(v.xs[i])]]

OptsOf(m) == [name |-> m.name, hasargs |-> Len(m.opts) > 0, args |-> <<>>,
              kw |-> [i \in 1..Len(m.opts) |-> [k |-> m.opts[i].k, v |-> ValExpr(m.opts[i].v)]]]

\* array-valued arguments in order of appearance: <<op index, "a"|"k", position>>
ArrSlots(prog) ==
  LET RECURSIVE F(_) F(i) == IF i > Len(prog.ops) THEN <<>>
        ELSE LET op == prog.ops[i] IN
             SelectSeq([j \in 1..Len(op.args) |-> <<i, "a", j>>], LAMBDA s : op.args[s[3]].k = "arr")
             \o SelectSeq([j \in 1..Len(op.kw) |-> <<i, "k", j>>], LAMBDA s : op.kw[s[3]].v.k = "arr")
             \o F(i + 1)
  IN F(1)
SlotIndex(slots, s) == CHOOSE n \in 1..Len(slots) : slots[n] = s
ArrName(n) == "A" \o ToString(n - 1)
ArrDecl(nm, a) == [t |-> "arr", ty |-> a.ty, x |-> nm, shape |-> <<Len(a.rows), Len(a.rows[1])>>,
                   rows |-> [r \in 1..Len(a.rows) |-> [c \in 1..Len(a.rows[r]) |-> ValExpr(a.rows[r][c])]]]
KindTy(v) == CASE v.k \in {"int", "float", "complex", "str", "bool"} -> v.k [] OTHER -> "float"
VarDecl(e) == IF e.v.k = "arr"
              THEN [t |-> "arr", ty |-> e.v.ty, x |-> e.n, shape |-> <<>>,
                    rows |-> [r \in 1..Len(e.v.rows) |-> [c \in 1..Len(e.v.rows[r]) |-> ValExpr(e.v.rows[r][c])]]]
              ELSE [t |-> "var", ty |-> KindTy(e.v), x |-> e.n, e |-> ValExpr(e.v)]

Serialize(prog) ==
  LET slots == ArrSlots(prog)
      decls == [n \in 1..Len(slots) |->
                  LET s == slots[n] op == prog.ops[s[1]] IN ArrDecl(ArrName(n), IF s[2] = "a" THEN op.args[s[3]] ELSE op.kw[s[3]].v)]
      tdmvars == IF prog.type.name = "tdm" THEN [i \in 1..Len(prog.vars) |-> VarDecl(prog.vars[i])] ELSE <<>>
      ArgExpr(i, kind, j, v) == IF v.k = "arr" THEN [t |-> "var", x |-> ArrName(SlotIndex(slots, <<i, kind, j>>))] ELSE ValExpr(v)
      stmts == [i \in 1..Len(prog.ops) |->
                  LET op == prog.ops[i] IN
                  [t |-> "stmt", op |-> op.op, hasargs |-> op.hasargs,
                   args |-> [j \in 1..Len(op.args) |-> ArgExpr(i, "a", j, op.args[j])],
                   kw |-> [j \in 1..Len(op.kw) |-> [k |-> op.kw[j].k, v |-> ArgExpr(i, "k", j, op.kw[j].v)]],
                   modes |-> [j \in 1..Len(op.modes) |-> [t |-> "val", v |-> IntV(op.modes[j])]],
                   br |-> IF Len(op.modes) = 1 THEN "none" ELSE "sq"]]
  IN [name |-> prog.name, version |-> prog.version, target |-> OptsOf(prog.target), type |-> OptsOf(prog.type),
      incs |-> <<>>, body |-> decls \o tdmvars \o stmts]

\* what C01 compares: metadata, free parameters, operation sequence (values numerically)
RECURSIVE SameValS(_, _)
SameValS(a, b) == CASE a.k \in {"sym", "rrt"} /\ b.k = a.k -> a.term = b.term
                    [] OTHER -> SameVal(a, b)
SameOpS(a, b) == a.op = b.op /\ a.modes = b.modes /\ Len(a.args) = Len(b.args) /\ Len(a.kw) = Len(b.kw)
                 /\ (\A i \in 1..Len(a.args) : SameValS(a.args[i], b.args[i]))
                 /\ (\A i \in 1..Len(a.kw) : a.kw[i].k = b.kw[i].k /\ SameValS(a.kw[i].v, b.kw[i].v))
SameMeta(m, n) == m.name = n.name /\ Len(m.opts) = Len(n.opts) /\ \A i \in 1..Len(m.opts) : m.opts[i].k = n.opts[i].k /\ SameVal(m.opts[i].v, n.opts[i].v)
SameProgram(p, q) == /\ p.name = q.name /\ p.version = q.version /\ SameMeta(p.target, q.target) /\ SameMeta(p.type, q.type)
                     /\ ParamSet(p) = ParamSet(q) /\ Len(p.ops) = Len(q.ops) /\ \A i \in 1..Len(p.ops) : SameOpS(p.ops[i], q.ops[i])

\* parameters that occur in no operation cannot survive a serialisation (variables are not written out)
RECURSIVE ValPars(_)
ValPars(v) == CASE v.k \in {"sym", "rrt"} -> ParsOf(v.term)
                [] v.k = "arr" -> UNION {UNION {ValPars(v.rows[r][c]) : c \in 1..Len(v.rows[r])} : r \in 1..Len(v.rows)}
                [] v.k = "list" -> UNION {ValPars(v.xs[i]) : i \in 1..Len(v.xs)}
                [] OTHER -> {}
OpPars(op) == UNION {ValPars(op.args[i]) : i \in 1..Len(op.args)} \cup UNION {ValPars(op.kw[i].v) : i \in 1..Len(op.kw)}
AllParamsUsed(p) == ParamSet(p) = UNION {OpPars(p.ops[i]) : i \in 1..Len(p.ops)}
\* array arguments that still contain parameters cannot be written as a numeric array declaration
HasSymArray(p) == \E i \in 1..Len(p.ops) : (\E j \in 1..Len(p.ops[i].args) : p.ops[i].args[j].k = "arr" /\ ValPars(p.ops[i].args[j]) # {})
                                           \/ (\E j \in 1..Len(p.ops[i].kw) : p.ops[i].kw[j].v.k = "arr" /\ ValPars(p.ops[i].kw[j].v) # {})
=============================================================================
