----------------------------- MODULE BBLoad -----------------------------
(* The listener machine: what blackbird.load/loads does with a parsed script, one step per    *)
(* listener callback (mirrors listener.py:159-582 and auxiliary._get_arguments).              *)
(*                                                                                            *)
(* State (a record S so that the same step function serves the TLC actions, the functional    *)
(* form Load(script) and the trace specification):                                            *)
(*   S.V    process-wide variable table _VAR      Seq([n, v]) in insertion order              *)
(*   S.P    process-wide parameter list _PARAMS   Seq([sym, n]): template symbols / p-array names *)
(*   S.st   stack of listener frames (last = innermost; an include pushes a frame)            *)
(*   S.res  outcome of the load once it is over: [k |-> "ok", prog] or a "raise" value        *)
(* A frame walks the PLAN of its script: the callbacks in the order the tree walker fires them.*)
(*                                                                                            *)
(* Abstract scripts (BBSyntax): [name, version, target, type, incs, body]; target/type are    *)
(* [name, hasargs, args, kw] with name "" when absent; body items are                         *)
(*   [t |-> "var", ty, x, e]  [t |-> "arr", ty, x, shape, rows]                               *)
(*   [t |-> "stmt", op, hasargs, args, kw, modes, br]   kw: Seq([k, v]), v an expr or [t |-> "lst", xs] *)
(*   [t |-> "for", ty, x, hdr, body]  hdr: [t |-> "range", a, b, c, hasc] | [t |-> "vals", br, xs]     *)
EXTENDS BBEval, TLC

CONSTANTS ClearTablesAtLoadStart,   \* intended TRUE: a load starts from empty tables whatever happened before (C12)
          FS(_)                     \* file system: resolved path -> script record, or NoFile
NoFile == [nofile |-> TRUE]
None == [none |-> TRUE]

Reserved == {"name", "version", "target", "type"}
IsPType(n) == \E i \in 0..999 : n = "p" \o ToString(i)

\* ------------------------------------------------------------------ arguments
\* _get_arguments: positional values, then keyword values (expression, literal or list), in order.
RECURSIVE SeqBad(_, _)
SeqBad(vs, i) == IF i > Len(vs) THEN None ELSE IF IsBad(vs[i]) THEN vs[i] ELSE SeqBad(vs, i + 1)
EvalSeq(es, V, PN) == [i \in 1..Len(es) |-> Eval(es[i], V, PN)]
ParamsSeq(es) == LET RECURSIVE F(_) F(i) == IF i > Len(es) THEN <<>> ELSE ParamsIn(es[i]) \o F(i + 1) IN F(1)
KwVal(v, V, PN) == IF v.t = "lst" THEN Lst(EvalSeq(v.xs, V, PN)) ELSE Eval(v, V, PN)
KwBad(v) == IF v.k = "list" THEN SeqBad(v.xs, 1) ELSE IF IsBad(v) THEN v ELSE None
KwParams(v) == IF v.t = "lst" THEN ParamsSeq(v.xs) ELSE ParamsIn(v)
EvalArgs(a, V, PN) ==
  LET args == EvalSeq(a.args, V, PN)
      \* a keyword whose value is an empty list "k=[]" is dropped (pinned by the repository's own test-suite)
      akw == SelectSeq(a.kw, LAMBDA x : ~(x.v.t = "lst" /\ Len(x.v.xs) = 0))
      kw == [i \in 1..Len(akw) |-> [k |-> akw[i].k, v |-> KwVal(akw[i].v, V, PN)]]
      b1 == SeqBad(args, 1)
      b2 == LET RECURSIVE F(_) F(i) == IF i > Len(kw) THEN None ELSE IF KwBad(kw[i].v) # None THEN KwBad(kw[i].v) ELSE F(i + 1) IN F(1)
      dup == \E i, j \in 1..Len(kw) : i < j /\ kw[i].k = kw[j].k
      \* a measured register and a template parameter in ONE argument: outside every property (the code cannot build the transform)
      Mixed(v) == v.k = "sym" /\ RegsOf(v.term) # {} /\ ParsOf(v.term) # {}
      mixed == (\E i \in 1..Len(args) : Mixed(args[i])) \/ (\E i \in 1..Len(kw) : Mixed(kw[i].v))
      ps == ParamsSeq(a.args) \o (LET RECURSIVE F(_) F(i) == IF i > Len(a.kw) THEN <<>> ELSE KwParams(a.kw[i].v) \o F(i + 1) IN F(1))
  IN [args |-> args, kw |-> kw, bad |-> IF b1 # None THEN b1 ELSE IF b2 # None THEN b2 ELSE IF dup \/ mixed THEN U("BBLoad:49") ELSE None,
      ps |-> [i \in 1..Len(ps) |-> [sym |-> TRUE, n |-> ps[i]]]]

PNames(P) == {P[i].n : i \in {j \in 1..Len(P) : ~P[j].sym}}

\* ------------------------------------------------------------------ declarations
Recast(k, v) == IF v.x THEN Num(k, v.re, v.im) ELSE Inx(k, v.term)       \* same value, another numeric kind
\* PYTHON_TYPES[ty](value): what a declared scalar / loop variable holds
\* ... and NUMPY_TYPES[ty](value) when the value is a whole array (an array-valued expression assigned to a scalar-typed name)
ConvArr(ty, a) ==
  IF ~NumArr(a) THEN U("BBLoad:59")
  ELSE IF Len(a.rows) = 1 /\ Len(a.rows[1]) = 1 THEN U("BBLoad:60")          \* a 1x1 array is accepted by the Python scalar constructors
  ELSE CASE ty \in {"int", "float"} /\ a.ty = "complex" -> Raise("other", "complex")
         [] ty = "int" -> (IF a.ty = "int" THEN a ELSE U("BBLoad:62"))
         [] ty = "float" -> Arr("float", [r \in 1..Len(a.rows) |-> [c \in 1..Len(a.rows[r]) |-> Recast("float", a.rows[r][c])]])
         [] ty = "complex" -> Arr("complex", [r \in 1..Len(a.rows) |-> [c \in 1..Len(a.rows[r]) |-> Recast("complex", a.rows[r][c])]])
         [] OTHER -> U("BBLoad:65")
Conv(ty, v) ==
  CASE IsBad(v) -> v
    [] v.k = "sym" -> v
    [] v.k = "arr" -> ConvArr(ty, v)
    [] ty = "int" -> (CASE v.k = "int" -> v [] v.k = "complex" -> Raise("other", "complex") [] OTHER -> U("BBLoad:70"))
    [] ty = "float" -> (CASE v.k = "int" -> Recast("float", v) [] v.k = "float" -> v
                          [] v.k = "complex" -> Raise("other", "complex") [] OTHER -> U("BBLoad:72"))
    [] ty = "complex" -> (CASE v.k \in {"int", "float"} -> Recast("complex", v)
                            [] v.k = "complex" -> v [] OTHER -> U("BBLoad:74"))
    [] ty = "str" -> (IF v.k = "str" THEN v ELSE U("BBLoad:75"))
    [] ty = "bool" -> (IF v.k = "bool" THEN v ELSE U("BBLoad:76"))
    [] OTHER -> U("BBLoad:77")
\* a listed loop value converted to the loop type must compare equal to what was written
LoopConv(ty, v) ==
  CASE IsBad(v) -> v
    [] v.k \in {"sym", "arr", "pname", "list"} -> U("BBLoad:81")
    [] ty = "int" -> (CASE v.k = "int" -> v [] v.k = "float" -> (IF v.x /\ ~QIsInt(v.re) THEN Raise("other", "loopval") ELSE U("BBLoad:82"))
                        [] v.k = "str" -> Raise("other", "loopval") [] v.k = "complex" -> Raise("other", "loopval") [] OTHER -> U("BBLoad:83"))
    [] ty = "float" -> (CASE v.k = "int" -> Recast("float", v) [] v.k = "float" -> v
                          [] v.k \in {"str", "complex"} -> Raise("other", "loopval") [] OTHER -> U("BBLoad:85"))
    [] ty = "str" -> (IF v.k = "str" THEN v ELSE Raise("other", "loopval"))
    [] ty = "bool" -> (CASE v.k = "bool" -> v [] v.k = "str" -> Raise("other", "loopval")
                         [] v.k = "float" -> (IF v.x /\ v.re # <<0, 1>> /\ v.re # <<1, 1>> THEN Raise("other", "loopval") ELSE U("BBLoad:88"))
                         [] OTHER -> U("BBLoad:89"))
    [] OTHER -> U("BBLoad:90")

\* element of an array of dtype ty
ElemConv(ty, v) ==
  CASE IsBad(v) -> v
    [] v.k = "sym" -> v
    [] ~IsNum(v) -> U("BBLoad:96")
    [] ty = "int" -> (CASE v.k = "int" -> v [] v.k = "complex" -> Raise("other", "arraytype") [] OTHER -> U("BBLoad:97"))
    [] ty = "float" -> (CASE v.k = "int" -> Recast("float", v) [] v.k = "float" -> v [] OTHER -> Raise("other", "arraytype"))
    [] ty = "complex" -> Recast("complex", v)
    [] OTHER -> U("BBLoad:100")

IsBarePar(e) == e.t = "par"
\* rows of values; bare parameters stay where they were written (row r, column c)
ArrayValue(it, V, PN) ==
  LET rows == [r \in 1..Len(it.rows) |-> [c \in 1..Len(it.rows[r]) |->
                 IF IsBarePar(it.rows[r][c]) THEN Sym(TPar(it.rows[r][c].p))
                 ELSE LET v == Eval(it.rows[r][c], V, PN) IN IF v.k = "sym" THEN U("BBLoad:107") ELSE ElemConv(it.ty, v)]]     \* only a BARE {p} is a specified symbolic element
      flat == Flatten(rows)
      bad == SeqBad(flat, 1)
      nrows == Len(rows)
      ragged == \E r \in 1..nrows : Len(rows[r]) # Len(rows[1])
      npar == Cardinality({i \in 1..Len(flat) : flat[i].k = "sym"})
      whole == nrows = 1 /\ Len(flat) = 1 /\ npar = 1            \* a lone {p}: the whole array is the parameter
  IN CASE bad # None -> bad
       [] it.ty \notin {"int", "float", "complex"} -> U("BBLoad:115")
       [] nrows = 0 -> U("BBLoad:116")
       [] whole -> IF Len(it.shape) = 0 THEN Raise("other", "noshape")
                   ELSE IF Len(it.shape) # 2 THEN U("BBLoad:118")
                   ELSE Arr(it.ty, [r \in 1..it.shape[1] |-> [c \in 1..it.shape[2] |->
                           Sym(TPar(flat[1].term.p \o "_" \o ToString(r - 1) \o "_" \o ToString(c - 1)))]])
       [] ragged -> Raise("other", "ragged")
       [] Len(it.shape) > 0 /\ it.shape # <<nrows, Len(rows[1])>> -> Raise("other", "shape")
       [] OTHER -> Arr(it.ty, rows)
ArrayParams(it) ==      \* parameter symbols the declaration leaves in the parameter list
  LET flat == Flatten(it.rows)
      ps == SelectSeq(flat, IsBarePar)
      whole == Len(it.rows) = 1 /\ Len(flat) = 1 /\ Len(ps) = 1
  IN IF whole /\ Len(it.shape) = 2
     THEN Flatten([r \in 1..it.shape[1] |-> [c \in 1..it.shape[2] |->
             [sym |-> TRUE, n |-> ps[1].p \o "_" \o ToString(r - 1) \o "_" \o ToString(c - 1)]]])
     ELSE [i \in 1..Len(ps) |-> [sym |-> TRUE, n |-> ps[i].p]]

\* ------------------------------------------------------------------ programs
EmptyProg == [name |-> "blackbird_program", version |-> "1.0",
              target |-> [name |-> "", opts |-> <<>>], type |-> [name |-> "", opts |-> <<>>],
              ops |-> <<>>, modes |-> {}, vars |-> <<>>, params |-> <<>>]

\* a symbolic argument that mentions measured registers is delivered as a register transform
Deliver(v) == IF v.k = "sym" /\ RegsOf(v.term) # {} THEN [k |-> "rrt", term |-> v.term] ELSE v
ModeOf(v) == IF IsBad(v) THEN v
             ELSE IF v.k = "int" THEN (IF v.x THEN v ELSE U("BBLoad:141"))          \* an integer too large for the model
             ELSE IF v.k \in {"float", "complex", "str", "sym", "arr", "list", "pname"} THEN Raise("other", "mode") ELSE U("BBLoad:142")

\* ------------------------------------------------------------------ template instantiation (program.__call__)
RECURSIVE SubstT(_, _)
SubstT(t, env) == CASE t.t = "par" -> (IF Has(env, t.p) THEN TermOf(Get(env, t.p)) ELSE t)
                    [] t.t = "bin" -> TBin(t.op, SubstT(t.l, env), SubstT(t.r, env))
                    [] t.t = "neg" -> TNeg(SubstT(t.a, env))
                    [] t.t = "fn" -> TFn(t.f, SubstT(t.a, env))
                    [] OTHER -> t
RECURSIVE EvalT(_)             \* value of a closed term
EvalT(t) == CASE t.t = "num" -> t.v
              [] t.t = "pi" -> Inx("float", TPi)
              [] t.t = "neg" -> Neg(EvalT(t.a))
              [] t.t = "bin" -> Arith(t.op, EvalT(t.l), EvalT(t.r))
              [] t.t = "fn" -> Apply(t.f, EvalT(t.a))
              [] OTHER -> Sym(t)
\* a value that is not a number (a measured-register transform handed to an included template): a bare
\* {p} is replaced by the value itself; inside a larger expression the arithmetic on such an object is refused (TypeError)
OpaqueNames(env) == {env[i].n : i \in {j \in 1..Len(env) : env[j].v.k = "rrt"}}
OddNames(env) == {env[i].n : i \in {j \in 1..Len(env) : ~(IsNum(env[j].v) \/ env[j].v.k \in {"sym", "rrt", "str", "pname"})}}     \* bool, list, array values
InstSym(t, env) ==
  IF ~(ParsOf(t) \subseteq {env[i].n : i \in 1..Len(env)}) THEN Raise("ValueError", "missing")
  ELSE IF ParsOf(t) \cap OddNames(env) # {} THEN U("BBLoad:InstSym")
  ELSE IF ParsOf(t) \cap OpaqueNames(env) # {} THEN (IF t.t = "par" THEN Get(env, t.p) ELSE Raise("other", "opaque-in-expression"))
  ELSE EvalT(SubstT(t, env))
InstVal(v, env) ==
  CASE v.k = "sym" -> InstSym(v.term, env)
    [] v.k = "arr" -> LET rows == [r \in 1..Len(v.rows) |-> [c \in 1..Len(v.rows[r]) |->
                                     IF v.rows[r][c].k = "sym"
                                     THEN (IF ParsOf(v.rows[r][c].term) \cap (OpaqueNames(env) \cup OddNames(env)) # {} THEN U("BBLoad:InstArr")
                                           ELSE InstSym(v.rows[r][c].term, env))
                                     ELSE v.rows[r][c]]]
                      bad == SeqBad(Flatten(rows), 1)
                  IN IF bad # None THEN bad ELSE Arr(v.ty, rows)
    [] OTHER -> v
InstOp(op, env) == IF ~op.hasargs THEN op
                   ELSE [op EXCEPT !.args = [i \in 1..Len(op.args) |-> InstVal(op.args[i], env)],
                                   !.kw = [i \in 1..Len(op.kw) |-> [k |-> op.kw[i].k, v |-> InstVal(op.kw[i].v, env)]]]
OpBad(op) == LET b1 == SeqBad(op.args, 1)
                 b2 == SeqBad([i \in 1..Len(op.kw) |-> op.kw[i].v], 1)
             IN IF b1 # None THEN b1 ELSE b2
ParamSet(prog) == {prog.params[i] : i \in 1..Len(prog.params)}
IsTemplate(prog) == ParamSet(prog) # {}
Instantiate(prog, env) ==
  IF ~IsTemplate(prog) THEN Raise("ValueError", "not a template")
  ELSE IF \E i \in 1..Len(env) : env[i].v.k \in {"str", "pname", "list"} THEN Raise("ValueError", "dim")     \* an iterable value must be a 2-d array
  ELSE LET ops == [i \in 1..Len(prog.ops) |-> InstOp(prog.ops[i], env)]
           vars == [i \in 1..Len(prog.vars) |-> [n |-> prog.vars[i].n, v |-> InstVal(prog.vars[i].v, env)]]
           b1 == LET RECURSIVE F(_) F(i) == IF i > Len(ops) THEN None
                                           ELSE IF ops[i].hasargs /\ OpBad(ops[i]) # None THEN OpBad(ops[i]) ELSE F(i + 1) IN F(1)
           b2 == SeqBad([i \in 1..Len(vars) |-> vars[i].v], 1)
       IN IF b1 # None THEN b1 ELSE IF b2 # None THEN b2
          ELSE [k |-> "ok", prog |-> [prog EXCEPT !.ops = ops, !.vars = vars, !.params = <<>>]]

\* ------------------------------------------------------------------ the plan of a script
StmtPlan(body) == [i \in 1..Len(body) |-> [a |-> "deferred", it |-> body[i]]]
ItemPlan(it) == CASE it.t = "var" -> <<[a |-> "exprvar", it |-> it]>>
                  [] it.t = "arr" -> <<[a |-> "arrayvar", it |-> it]>>
                  [] it.t = "stmt" -> <<[a |-> "stmt", it |-> it]>>
                  [] it.t = "for" -> <<[a |-> "enterFor", it |-> it]>> \o StmtPlan(it.body) \o <<[a |-> "exitFor", it |-> it]>>
Plan(s) == <<[a |-> "declarename"], [a |-> "version"]>>
           \o (IF s.target.name # "" THEN <<[a |-> "target"]>> ELSE <<>>)
           \o (IF s.type.name # "" THEN <<[a |-> "declaretype"]>> ELSE <<>>)
           \o [i \in 1..Len(s.incs) |-> [a |-> "include", path |-> s.incs[i]]]
           \o <<[a |-> "enterProgram"]>>
           \o (LET RECURSIVE F(_) F(i) == IF i > Len(s.body) THEN <<>> ELSE ItemPlan(s.body[i]) \o F(i + 1) IN F(1))
           \o <<[a |-> "exitProgram"]>>

\* paths: [abs |-> BOOLEAN, dirs |-> Seq(STRING), file |-> STRING]; a directory is a Seq(STRING) from the root.
\* os.path.join(base, p): an absolute p replaces base.  ".." components are kept by join and resolved by the OS.
\* The file a path denotes is found as the operating system finds it: component by component, a directory that is a symbolic
\* link is replaced by the directory it points to, and ".." is the parent of the directory reached SO FAR (not of the spelling).
\* LinkTarget is the identity unless a model's configuration replaces it (CONSTANT LinkTarget <- ...).
LinkTarget(d) == d
RECURSIVE Norm(_, _)
Norm(ds, acc) == IF ds = <<>> THEN acc
                 ELSE IF Head(ds) = ".." THEN Norm(Tail(ds), IF acc = <<>> THEN <<>> ELSE SubSeq(acc, 1, Len(acc) - 1))
                 ELSE Norm(Tail(ds), LinkTarget(Append(acc, Head(ds))))
Resolve(base, p) == LET d == IF p.abs THEN p.dirs ELSE base \o p.dirs IN [dirs |-> Norm(d, <<>>), file |-> p.file]
\* os.path.join(cwd, text): the path as the listener writes it.  The file it opens is Resolve (".." followed), but "already
\* included" compares these strings, and a nested listener's directory is the dirname of this string (".." segments kept).
RawPath(base, p) == [dirs |-> IF p.abs THEN p.dirs ELSE base \o p.dirs, file |-> p.file]

\* base: the listener's directory as it is spelled (dirname of the path it was given: possibly relative to the process working
\* directory, ".." kept); abase: the directory it denotes (absolute, normalised), where its include lines are looked up
NewFrame(s, base, abase) == [script |-> s, plan |-> Plan(s), pc |-> 1, prog |-> EmptyProg, inFor |-> FALSE, loop |-> None,
                             base |-> base, abase |-> abase, incs |-> <<>>]

Top(S) == S.st[Len(S.st)]
Instr(S) == Top(S).plan[Top(S).pc]
SetTop(S, f) == [S EXCEPT !.st[Len(S.st)] = f]
Adv(f) == [f EXCEPT !.pc = f.pc + 1]
Fail(S, r) == [S EXCEPT !.st = <<>>, !.res = r]          \* an exception unwinds every frame; the tables stay as they are

BeginAt(S0, s, base, abase) == [V |-> IF ClearTablesAtLoadStart THEN <<>> ELSE S0.V, P |-> IF ClearTablesAtLoadStart THEN <<>> ELSE S0.P,
                                st |-> <<NewFrame(s, base, abase)>>, res |-> None]
Begin(S0, s, base) == BeginAt(S0, s, base, base)          \* loaded by its absolute path

\* metadata options: only keyword options are kept; positional ones are evaluated and ignored (with a warning)
MetaStep(S, which) ==
  LET f == Top(S) m == IF which = "target" THEN f.script.target ELSE f.script.type IN
  IF ~m.hasargs
  THEN SetTop(S, Adv([f EXCEPT !.prog[which] = [name |-> m.name, opts |-> <<>>]]))
  ELSE LET r == EvalArgs(m, S.V, PNames(S.P)) IN
       IF r.bad # None THEN Fail(S, r.bad)
       ELSE [SetTop(S, Adv([f EXCEPT !.prog[which] = [name |-> m.name, opts |-> r.kw]])) EXCEPT !.P = S.P \o r.ps]

IncName(f, nm) == \E i \in 1..Len(f.incs) : f.incs[i].name = nm
IncGet(f, nm) == f.incs[CHOOSE i \in 1..Len(f.incs) : f.incs[i].name = nm]
IncPut(incs, e) == IF \E i \in 1..Len(incs) : incs[i].name = e.name
                   THEN [i \in 1..Len(incs) |-> IF incs[i].name = e.name THEN e ELSE incs[i]]
                   ELSE Append(incs, e)
RECURSIVE IncMerge(_, _)
IncMerge(incs, more) == IF more = <<>> THEN incs ELSE IncMerge(IncPut(incs, Head(more)), Tail(more))

SortSet(S) == LET RECURSIVE F(_) F(T) == IF T = {} THEN <<>> ELSE LET m == CHOOSE x \in T : \A y \in T : x <= y IN <<m>> \o F(T \ {m}) IN F(S)

\* one statement: either an ordinary operation or the expansion of an included program
DoStmt(S, it) ==
  LET f == Top(S)
      PN == PNames(S.P)
      ms == [i \in 1..Len(it.modes) |-> ModeOf(Eval(it.modes[i], S.V, PN))]
      mbad == SeqBad(ms, 1)
      mps == ParamsSeq(it.modes)
  IN IF mbad # None THEN Fail(S, mbad)
     ELSE
     LET modes == [i \in 1..Len(ms) |-> ms[i].re[1]]
         r == IF it.hasargs THEN EvalArgs(it, S.V, PN) ELSE [args |-> <<>>, kw |-> <<>>, bad |-> None, ps |-> <<>>]
         P2 == S.P \o [i \in 1..Len(mps) |-> [sym |-> TRUE, n |-> mps[i]]] \o r.ps
     IN IF r.bad # None THEN Fail(S, r.bad)
        ELSE
        LET op == [op |-> it.op, hasargs |-> it.hasargs, args |-> [i \in 1..Len(r.args) |-> Deliver(r.args[i])],
                   kw |-> [i \in 1..Len(r.kw) |-> [k |-> r.kw[i].k, v |-> Deliver(r.kw[i].v)]], modes |-> modes]
            f1 == [f EXCEPT !.prog.modes = @ \cup {modes[i] : i \in 1..Len(modes)}]
        IN IF ~IncName(f, it.op)
           THEN [SetTop(S, [f1 EXCEPT !.prog.ops = Append(@, op)]) EXCEPT !.P = P2]
           ELSE
           LET bb == IncGet(f, it.op).prog
               tmpl == IsTemplate(bb)
               \* a function of measured registers is handed to the template as its expression (not yet delivered as a transform);
               \* the instantiated arguments that depend on measured registers are delivered as transforms afterwards
               env == [i \in 1..Len(r.kw) |-> [n |-> r.kw[i].k, v |-> r.kw[i].v]]
               inst0 == IF it.hasargs /\ tmpl THEN Instantiate(bb, env) ELSE [k |-> "ok", prog |-> bb]
               inst == IF inst0.k # "ok" \/ ~(it.hasargs /\ tmpl) THEN inst0
                       ELSE [inst0 EXCEPT !.prog.ops = [i \in 1..Len(@) |->
                               IF ~@[i].hasargs THEN @[i]
                               ELSE [@[i] EXCEPT !.args = [j \in 1..Len(@) |-> Deliver(@[j])],
                                                 !.kw = [j \in 1..Len(@) |-> [k |-> @[j].k, v |-> Deliver(@[j].v)]]]]]
           IN CASE Len(modes) # Cardinality(bb.modes) -> Fail(S, Raise("other", "modecount"))
                [] it.hasargs /\ ~tmpl -> Fail(S, Raise("other", "noargs"))
                [] it.hasargs /\ {op.kw[i].k : i \in 1..Len(op.kw)} # ParamSet(bb) -> Fail(S, Raise("other", "kwargs"))
                [] ~it.hasargs /\ tmpl -> Fail(S, Raise("other", "missingargs"))
                [] it.hasargs /\ Len(op.args) > 0 -> Fail(S, U("BBLoad:273"))
                [] Cardinality({modes[i] : i \in 1..Len(modes)}) # Len(modes) -> Fail(S, U("BBLoad:274"))
                [] inst.k # "ok" -> Fail(S, inst)
                [] OTHER ->
                   LET from == SortSet(inst.prog.modes)             \* callee modes in increasing order
                       map(m) == modes[CHOOSE i \in 1..Len(from) : from[i] = m]
                       ops == [i \in 1..Len(inst.prog.ops) |->
                                 [inst.prog.ops[i] EXCEPT !.modes = [j \in 1..Len(@) |-> map(@[j])]]]
                   IN [SetTop(S, [f1 EXCEPT !.prog.ops = @ \o ops]) EXCEPT !.P = P2]

Range(a, b, c) == LET RECURSIVE F(_) F(i) == IF (c > 0 /\ i >= b) \/ (c < 0 /\ i <= b) THEN <<>> ELSE <<IntV(i)>> \o F(i + c) IN F(a)

Step(S) ==
  LET f == Top(S) ins == Instr(S) a == ins.a IN
  CASE a = "declarename" -> SetTop(S, Adv([f EXCEPT !.prog.name = f.script.name]))
    [] a = "version" -> SetTop(S, Adv([f EXCEPT !.prog.version = f.script.version]))
    [] a = "target" -> MetaStep(S, "target")
    [] a = "declaretype" -> MetaStep(S, "type")
    [] a = "include" ->
         LET file == Resolve(f.abase, ins.path) raw == RawPath(f.base, ins.path) IN
         IF \E i \in 1..Len(f.incs) : f.incs[i].file = raw THEN SetTop(S, Adv(f))        \* already included (under this very spelling)
         ELSE IF FS(file) = NoFile THEN Fail(S, Raise("other", "nofile"))
         ELSE [S EXCEPT !.st = Append(S.st, NewFrame(FS(file), raw.dirs, file.dirs))]     \* nested listener
    [] a = "enterProgram" -> [SetTop(S, Adv(f)) EXCEPT !.V = <<>>, !.P = <<>>]
    [] a = "exprvar" ->
         LET it == ins.it IN
         IF it.x \in Reserved \/ (\E i \in 0..99 : it.x = "q" \o ToString(i)) THEN Fail(S, Raise("BSE", it.x))
         ELSE LET v == Conv(it.ty, Eval(it.e, S.V, PNames(S.P)))
                  ps == ParamsIn(it.e) IN
              IF IsBad(v) THEN Fail(S, v)
              ELSE [SetTop(S, Adv(f)) EXCEPT !.V = Put(S.V, it.x, v), !.P = S.P \o [i \in 1..Len(ps) |-> [sym |-> TRUE, n |-> ps[i]]]]
    [] a = "arrayvar" ->
         LET it == ins.it IN
         IF it.x \in Reserved \/ (\E i \in 0..99 : it.x = "q" \o ToString(i)) THEN Fail(S, Raise("BSE", it.x))
         ELSE LET v == ArrayValue(it, S.V, PNames(S.P)) IN
              IF IsBad(v) THEN Fail(S, v)
              ELSE [SetTop(S, Adv(f)) EXCEPT !.V = Put(S.V, it.x, v),
                        !.P = S.P \o ArrayParams(it) \o (IF f.prog.type.name = "tdm" /\ IsPType(it.x) THEN <<[sym |-> FALSE, n |-> it.x]>> ELSE <<>>)]
    [] a = "stmt" -> LET S2 == DoStmt(S, ins.it) IN IF S2.res # None THEN S2 ELSE SetTop(S2, Adv(Top(S2)))
    [] a = "enterFor" -> SetTop(S, Adv([f EXCEPT !.inFor = TRUE]))
    [] a = "deferred" -> SetTop(S, Adv(f))            \* the body is not executed while walking
    [] a = "exitFor" ->
         LET it == ins.it IN
         IF f.loop = None
         THEN \* evaluate the header: a range, or the listed values
              IF it.hdr.t = "range"
              THEN IF it.hdr.hasc /\ it.hdr.c = 0 THEN Fail(S, Raise("other", "zerostep"))
                   ELSE SetTop(S, [f EXCEPT !.inFor = FALSE, !.loop = [vals |-> Range(it.hdr.a, it.hdr.b, IF it.hdr.hasc THEN it.hdr.c ELSE 1), vi |-> 1, si |-> 0]])
              ELSE LET vs == EvalSeq(it.hdr.xs, S.V, PNames(S.P)) b == SeqBad(vs, 1) ps == ParamsSeq(it.hdr.xs) IN
                   IF b # None THEN Fail(S, b)
                   ELSE [SetTop(S, [f EXCEPT !.inFor = FALSE, !.loop = [vals |-> vs, vi |-> 1, si |-> 0]])
                           EXCEPT !.P = S.P \o [i \in 1..Len(ps) |-> [sym |-> TRUE, n |-> ps[i]]]]
         ELSE IF f.loop.vi > Len(f.loop.vals)
         THEN [SetTop(S, Adv([f EXCEPT !.loop = None])) EXCEPT !.V = Del(S.V, it.x)]         \* the loop variable goes out of scope
         ELSE IF f.loop.si = 0
         THEN LET v == LoopConv(it.ty, f.loop.vals[f.loop.vi]) IN
              IF IsBad(v) THEN Fail(S, v)
              ELSE [SetTop(S, [f EXCEPT !.loop.si = 1]) EXCEPT !.V = Put(S.V, it.x, v)]
         ELSE LET S2 == DoStmt(S, it.body[f.loop.si]) IN
              IF S2.res # None THEN S2
              ELSE LET g == Top(S2) IN
                   SetTop(S2, IF g.loop.si = Len(it.body) THEN [g EXCEPT !.loop.vi = @ + 1, !.loop.si = 0] ELSE [g EXCEPT !.loop.si = @ + 1])
    [] a = "exitProgram" ->
         LET ps == SelectSeq(S.P, LAMBDA p : ~IsPType(p.n))
             prog == [f.prog EXCEPT !.vars = S.V, !.params = [i \in 1..Len(ps) |-> ps[i].n]]
         IN IF Len(S.st) = 1
            THEN [S EXCEPT !.V = <<>>, !.P = <<>>, !.st = <<>>, !.res = [k |-> "ok", prog |-> prog]]
            ELSE \* a nested listener is done: register it by program name (with its own includes) in the parent
                 LET parent == S.st[Len(S.st) - 1]
                     file == RawPath(parent.base, parent.plan[parent.pc].path)
                     incs2 == IncMerge(IncPut(parent.incs, [name |-> prog.name, file |-> file, prog |-> prog]), f.incs)
                 IN [S EXCEPT !.V = <<>>, !.P = <<>>,
                              !.st = Append(SubSeq(S.st, 1, Len(S.st) - 2), Adv([parent EXCEPT !.incs = incs2]))]

RECURSIVE Run(_)
Run(S) == IF S.res # None THEN S ELSE Run(Step(S))
Fresh == [V |-> <<>>, P |-> <<>>, st |-> <<>>, res |-> None]
\* outcome of loading script s (a file in directory base) after the process state S0
LoadFrom(S0, s, base) == Run(Begin(S0, s, base))
Load(s) == LoadFrom(Fresh, s, <<>>).res
=============================================================================
