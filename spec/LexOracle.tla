--------------------------- MODULE LexOracle ---------------------------
(* Trace validation of the real lexer: for each recorded case (text as character classes +  *)
(* the token stream the generated Python lexer produced) run the BBLexer machine and compare *)
(* every emitted token with the recorded one.  A verdict line is printed per case.          *)
EXTENDS Integers, Sequences, FiniteSets, TLC, Json, IOUtils
LX == INSTANCE BBLexer
Cases == JsonDeserialize(IOEnv.CASE_FILE)
VARIABLES k, st, ti, ok, done
vars == <<k, st, ti, ok, done>>
Text == Cases[k].text
Toks == Cases[k].toks
Init == k \in 1..Len(Cases) /\ st = LX!LexInit /\ ti = 0 /\ ok = TRUE /\ done = FALSE
ReadChar == ~done /\ ~LX!AtEnd(st, Text) /\ LX!CanRead(st, Text)
            /\ st' = LX!Read(st, Text) /\ UNCHANGED <<k, ti, ok, done>>
EmitTok  == ~done /\ ~LX!AtEnd(st, Text) /\ ~LX!CanRead(st, Text)
            /\ IF st.last = LX!NoMatch
               THEN ok' = FALSE /\ done' = TRUE /\ UNCHANGED <<k, st, ti>>      \* cannot happen: ANY is total
               ELSE LET m == LX!Munched(st) IN
                    /\ st' = LX!AfterEmit(st)
                    /\ IF m.skip THEN UNCHANGED <<ti, ok>>
                       ELSE /\ ti' = ti + 1
                            /\ ok' = (ok /\ ti + 1 <= Len(Toks) /\ Toks[ti+1].ty = m.ty
                                         /\ Toks[ti+1].start = m.start /\ Toks[ti+1].stop = m.stop)
                    /\ UNCHANGED <<k, done>>
Finish   == ~done /\ LX!AtEnd(st, Text) /\ done' = TRUE /\ ok' = (ok /\ ti = Len(Toks))
            /\ UNCHANGED <<k, st, ti>>
Next == ReadChar \/ EmitTok \/ Finish
Verdict == done => PrintT(<<"LEXV", k, ok, ti>>)
=============================================================================
