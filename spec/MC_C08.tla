----------------------------- MODULE MC_C08 -----------------------------
(* C08: arguments written as polynomial/rational expressions over measured registers (multi-  *)
(* digit registers included, 1..4 distinct registers, int/float coefficients, a declared      *)
(* variable - an ordinary float named p0, like a tdm array -), in positional or keyword position.  TLC checks on the listener machine that an   *)
(* argument is delivered as a register transform exactly when registers occur in it, over     *)
(* exactly those registers, and prints script + delivered term for replay.                    *)
EXTENDS BBDenote, Json
CONSTANT Depth
I(n) == [t |-> "int", n |-> n]
Fl(n, d) == [t |-> "flt", n |-> n, d |-> d]
Var(x) == [t |-> "var", x |-> x]
Reg(n) == [t |-> "reg", n |-> n]
Bin(op, l, r) == [t |-> "bin", op |-> op, l |-> l, r |-> r]
NoArgs == [hasargs |-> FALSE, args |-> <<>>, kw |-> <<>>]
NoM == [name |-> ""] @@ NoArgs
Regs == {0, 1, 2, 10, 12}
Consts == {I(2), Fl(1, 2), Var("p0")}
RECURSIVE ERegs(_)
ERegs(e) == CASE e.t = "reg" -> {e.n} [] e.t = "bin" -> ERegs(e.l) \cup ERegs(e.r) [] e.t \in {"brk", "neg"} -> ERegs(e.a) [] OTHER -> {}
Leaves == {Reg(n) : n \in Regs} \cup Consts
\* no register may cancel identically: - and / only between operands over disjoint registers
RECURSIVE HasMinus(_)
HasMinus(x) == CASE x.t = "bin" -> x.op \in {"-", "/"} \/ HasMinus(x.l) \/ HasMinus(x.r) [] x.t \in {"brk", "neg"} -> HasMinus(x.a) [] OTHER -> FALSE
OKBin(op, l, r) == /\ (op \in {"-", "/"} => ERegs(l) \cap ERegs(r) = {})
                   /\ (op = "-" => ERegs(l) \cup ERegs(r) # {})        \* a register-free difference may be zero and cancel a whole product
                   /\ ((op = "+" /\ (HasMinus(l) \/ HasMinus(r))) => ERegs(l) \cap ERegs(r) = {})
                   /\ (op = "/" => r.t # "int" /\ (ERegs(r) # {} \/ r \in Consts))
                   /\ (op = "**" => r = I(2) /\ ERegs(l) # {})
Wrap(e) == IF e.t = "bin" THEN [t |-> "brk", a |-> e] ELSE e
E1 == Leaves \cup {Bin(op, l, r) : op \in {"+", "-", "*", "/", "**"}, l \in Leaves, r \in Leaves \cup {I(2)}}
E1ok == {e \in E1 : e.t # "bin" \/ OKBin(e.op, e.l, e.r)}
Small == {e \in E1ok : e.t = "bin" /\ e.op \in {"+", "*"} /\ Cardinality(ERegs(e)) >= 1}
E2 == {Bin(op, Wrap(l), Wrap(r)) : op \in {"+", "-", "*", "/"}, l \in Small, r \in {x \in E1ok : x.t = "bin" /\ x.op \in {"+", "*", "-"}} \cup {Reg(12), Fl(1, 2)}}
E2ok == {e \in E2 : OKBin(e.op, e.l, e.r)}
\* a representative depth-2 family for every run; the full E2ok only when Depth >= 3
SmallL == {Bin(op, Reg(a), x) : op \in {"+", "*"}, a \in {0, 10}, x \in {Reg(1), Reg(12), I(2), Fl(1, 2), Var("p0")}}
RSet == {Bin("+", Reg(2), Fl(1, 2)), Bin("*", Reg(1), Reg(12)), Bin("-", Reg(2), Reg(10)), Bin("*", I(2), Reg(0)), Bin("+", Reg(1), I(2)), Reg(12), Fl(1, 2)}
E2small == {x \in {Bin(op, Wrap(l), Wrap(r)) : op \in {"+", "-", "*", "/"}, l \in SmallL, r \in RSet} : OKBin(x.op, x.l, x.r)}
Exprs == IF Depth >= 3 THEN E1ok \cup E2ok ELSE IF Depth = 2 THEN E1ok \cup E2small ELSE E1ok
Pre == <<[t |-> "var", ty |-> "float", x |-> "p0", e |-> Fl(3, 2)]>>
Script(e, pos) == [name |-> "rr", version |-> "1.0", target |-> NoM, type |-> NoM, incs |-> <<>>,
                   body |-> Pre \o <<[t |-> "stmt", op |-> "MeasureX", hasargs |-> FALSE, args |-> <<>>, kw |-> <<>>, modes |-> <<I(0)>>, br |-> "none"],
                                    IF pos = "pos" THEN [t |-> "stmt", op |-> "Zgate", hasargs |-> TRUE, args |-> <<e, Fl(1, 4)>>, kw |-> <<>>, modes |-> <<I(1)>>, br |-> "none"]
                                    ELSE [t |-> "stmt", op |-> "Zgate", hasargs |-> TRUE, args |-> <<Fl(1, 4)>>, kw |-> <<[k |-> "phi", v |-> e]>>, modes |-> <<I(1)>>, br |-> "none"]>>]
\* the same expression inside a loop body, multiplied by the loop variable: one transform per iteration, each with its own formula
LoopScript(x) == [name |-> "rr", version |-> "1.0", target |-> NoM, type |-> NoM, incs |-> <<>>,
                  body |-> Pre \o <<[t |-> "stmt", op |-> "MeasureX", hasargs |-> FALSE, args |-> <<>>, kw |-> <<>>, modes |-> <<I(0)>>, br |-> "none"],
                                   [t |-> "for", ty |-> "int", x |-> "m", hdr |-> [t |-> "vals", br |-> "sq", xs |-> <<I(2), I(3), I(5)>>],
                                    body |-> <<[t |-> "stmt", op |-> "Zgate", hasargs |-> TRUE, args |-> <<Bin("*", Wrap(x), Var("m")), Fl(1, 4)>>,
                                                kw |-> <<[k |-> "phi", v |-> Bin("+", Wrap(x), Var("m"))]>>, modes |-> <<I(1)>>, br |-> "none"]>>]>>]
VARIABLES e, pos, done
Init == e \in Exprs /\ pos \in {"pos", "kw", "loop"} /\ done = FALSE /\ (pos = "loop" => (ERegs(e) # {} /\ e \in E1ok))
Next == ~done /\ done' = TRUE /\ UNCHANGED <<e, pos>>
NoFS8(f) == NoFile
Out == IF pos = "loop" THEN Load(LoopScript(e)) ELSE Load(Script(e, pos))
Arg == IF pos = "kw" THEN Out.prog.ops[2].kw[1].v ELSE Out.prog.ops[2].args[1]
TransformIffRegisters == done => (Out.k = "ok" /\ (Arg.k = "rrt" <=> ERegs(e) # {}) /\ (Arg.k = "rrt" => RegsOf(Arg.term) = ERegs(e)))
PlainStaysPlain == done => (ERegs(e) = {} => IsNum(Arg))
OtherArgPlain == done => (IF pos = "kw" THEN IsNum(Out.prog.ops[2].args[1]) ELSE IsNum(Out.prog.ops[2].args[2]))
LoopOnePerIteration == (done /\ pos = "loop") => (Len(Out.prog.ops) = 4 /\ \A i \in 2..4 : Out.prog.ops[i].args[1].k = "rrt" /\ Out.prog.ops[i].kw[1].v.k = "rrt")
Emit == done => PrintT(<<"CASE", ToJson([s |-> IF pos = "loop" THEN LoopScript(e) ELSE Script(e, pos), out |-> Out, pos |-> pos, nregs |-> Cardinality(ERegs(e))])>>)
=============================================================================
