----------------------------- MODULE MC_C13 -----------------------------
(* C13: histories of API calls over a template (argument-less operation, list keyword, array   *)
(* with a parameter, array variable) and a plain program, with up to MaxInst instances.        *)
EXTENDS BBObjects, TLC, Json
CONSTANTS Depth, MaxInst
VARIABLE hist
vars == <<heap, objs, next, hist>>

\* T: cells 1..19   target X8_01 (shots=10, flags=[1, 2]) ; G({a}, 2*q1) | 0 ; Vac | 1 ; K(l=[1, 2]) | 0 ; K2(W) | 1 ;
\*                  variables M = [[{b}, 2]], v = {b}, Q = [[3, 4]] (no parameter), W[1, 2] = {wv} (an array given as a whole by one parameter: elements wv_0_0, wv_0_1)
\* P: cells 20..26  Vac | 0 ; H(5, 2*q0) | 1 ; variable N = [[3, 4]]
\* E: cells 27..29  the caller's own array [[6, 7]], handed to every template call as the value of wv (the SAME object each time)
InitHeap == [c \in 1..29 |->
  CASE c = 1 -> [k |-> "op", name |-> "G", hasargs |-> TRUE, args |-> 2, kw |-> 3, modes |-> <<0>>]
    [] c = 2 -> [k |-> "list", xs |-> <<SymP("a"), Ref(13)>>]
    [] c = 3 -> [k |-> "dict", items |-> <<>>]
    [] c = 4 -> [k |-> "op", name |-> "Vac", hasargs |-> FALSE, args |-> 0, kw |-> 0, modes |-> <<1>>]
    [] c = 5 -> [k |-> "op", name |-> "K", hasargs |-> TRUE, args |-> 6, kw |-> 7, modes |-> <<0>>]
    [] c = 6 -> [k |-> "list", xs |-> <<>>]
    [] c = 7 -> [k |-> "dict", items |-> <<[key |-> "l", v |-> Ref(8)]>>]
    [] c = 8 -> [k |-> "list", xs |-> <<Num(1), Num(2)>>]
    [] c = 9 -> [k |-> "dict", items |-> <<[key |-> "M", v |-> Ref(10)], [key |-> "v", v |-> SymP("b")], [key |-> "W", v |-> Ref(18)], [key |-> "Q", v |-> Ref(19)]>>]      \* variables of T
    [] c = 10 -> [k |-> "arr", rows |-> << <<SymP("b"), Num(2)>> >>]
    [] c = 11 -> [k |-> "dict", items |-> <<[key |-> "shots", v |-> Num(10)], [key |-> "flags", v |-> Ref(12)]>>]  \* target options of T
    [] c = 12 -> [k |-> "list", xs |-> <<Num(1), Num(2)>>]
    [] c = 13 -> [k |-> "rrt", regs |-> <<1>>]                                       \* the transform 2*q1 of G's second argument
    [] c = 14 -> [k |-> "op", name |-> "K2", hasargs |-> TRUE, args |-> 15, kw |-> 16, modes |-> <<1>>]
    [] c = 15 -> [k |-> "list", xs |-> <<Ref(17)>>]                                  \* K2(W)
    [] c = 16 -> [k |-> "dict", items |-> <<>>]
    \* (in the template the argument and the variable are one array object; instantiation fills them separately, and only instances
    \*  are mutated in the histories, so they are kept as two cells throughout)
    [] c = 17 -> [k |-> "arr", rows |-> << <<SymP("wv_0_0"), SymP("wv_0_1")>> >>]
    [] c = 18 -> [k |-> "arr", rows |-> << <<SymP("wv_0_0"), SymP("wv_0_1")>> >>]
    [] c = 19 -> [k |-> "arr", rows |-> << <<Num(3), Num(4)>> >>]                  \* Q: an array variable of the template WITHOUT parameters
    [] c = 20 -> [k |-> "op", name |-> "Vac", hasargs |-> FALSE, args |-> 0, kw |-> 0, modes |-> <<0>>]
    [] c = 21 -> [k |-> "op", name |-> "H", hasargs |-> TRUE, args |-> 22, kw |-> 23, modes |-> <<1>>]
    [] c = 22 -> [k |-> "list", xs |-> <<Num(5), [k |-> "rrt", r |-> 0]>>]        \* H(5, 2*q0) | 1 : a measured-register argument
    [] c = 23 -> [k |-> "dict", items |-> <<>>]
    [] c = 24 -> [k |-> "dict", items |-> <<[key |-> "N", v |-> Ref(25)]>>]                                        \* variables of P
    [] c = 25 -> [k |-> "arr", rows |-> << <<Num(3), Num(4)>> >>]
    [] c = 26 -> [k |-> "dict", items |-> <<>>]                                                                      \* target options of P
    [] c = 27 -> [k |-> "dict", items |-> <<[key |-> "wv", v |-> Ref(28)]>>]                                       \* E: the caller's value
    [] c = 28 -> [k |-> "arr", rows |-> << <<Num(6), Num(7)>> >>]
    [] c = 29 -> [k |-> "dict", items |-> <<>>]]
InitObjs == [n \in {"T", "P", "E"} |->
  CASE n = "T" -> [kind |-> "template", lo |-> 1, hi |-> 19, ops |-> <<1, 4, 5, 14>>, vars |-> 9, opts |-> 11, params |-> {"a", "b", "wv_0_0", "wv_0_1"}]
    [] n = "P" -> [kind |-> "program", lo |-> 20, hi |-> 26, ops |-> <<20, 21>>, vars |-> 24, opts |-> 26, params |-> {}]
    [] n = "E" -> [kind |-> "value", lo |-> 27, hi |-> 29, ops |-> <<>>, vars |-> 27, opts |-> 29, params |-> {}]]
Init == heap = InitHeap /\ objs = InitObjs /\ next = 30 /\ hist = <<>>
InstNames == {"I1", "I2", "I3"}
\* the whole-array parameter wv always gets the caller's array E (its elements at the time of the call)
EArr == heap[28].rows[1]
Envs == {[p \in {"a", "b", "wv_0_0", "wv_0_1"} |-> CASE p = "a" -> 3 [] p = "b" -> 8 [] p = "wv_0_0" -> EArr[1].n [] p = "wv_0_1" -> EArr[2].n],
         [p \in {"a", "b", "wv_0_0", "wv_0_1"} |-> CASE p = "a" -> -1 [] p = "b" -> 4 [] p = "wv_0_0" -> EArr[1].n [] p = "wv_0_1" -> EArr[2].n]}
NInst == Cardinality(DOMAIN objs \cap InstNames)
Log(a) == hist' = Append(hist, a)
ReadOnly(a) == a.act \in {"dumps", "read", "digraph", "match", "call"}
Next == Len(hist) < Depth /\
  \/ \E o \in DOMAIN objs \ {"E"} : Dumps(o) /\ Log([act |-> "dumps", o |-> o])
  \/ \E o \in DOMAIN objs \ {"E"} : Read(o) /\ Log([act |-> "read", o |-> o])
  \/ \E o \in DOMAIN objs \ {"E"} : ToDiGraph(o) /\ Log([act |-> "digraph", o |-> o])
  \/ \E p \in DOMAIN objs \ {"E"} : Match("T", p) /\ Log([act |-> "match", t |-> "T", p |-> p])
  \/ \E env \in Envs : NInst < MaxInst /\ LET new == IF NInst = 0 THEN "I1" ELSE IF NInst = 1 THEN "I2" ELSE "I3"
                                          IN Call("T", env, new) /\ Log([act |-> "call", t |-> "T", env |-> env, new |-> new])
  \/ \E o \in (DOMAIN objs) \cap InstNames, k \in {"append_arg", "set_kw", "array_elem", "del_var", "opt_replace", "arg_array_elem", "set_var", "rename_op", "set_option", "append_option_list", "rrt_regref"}, i \in 1..4 :
         Mutate(o, k, i) /\ Log([act |-> "mutate", o |-> o, kind |-> k, i |-> i])
\* ---- the property
Pure == [][\A o \in DOMAIN objs : (hist' # hist /\ ReadOnly(hist'[Len(hist')])) => Content(heap', objs'[o]) = Content(heap, objs[o])]_vars
OnlyTargetChanges == [][\A o \in DOMAIN objs : (hist' # hist /\ hist'[Len(hist')].act = "mutate" /\ hist'[Len(hist')].o # o)
                          => Content(heap', objs'[o]) = Content(heap, objs[o])]_vars
Contents == [o \in DOMAIN objs |-> Content(heap, objs[o])]
Emit == (Len(hist) = Depth) => PrintT(<<"HIST", ToJson([hist |-> hist, final |-> Contents])>>)
=============================================================================
