----------------------------- MODULE MC_C13 -----------------------------
(* C13: histories of API calls over a template (argument-less operation, list keyword, array   *)
(* with a parameter, array variable) and a plain program, with up to MaxInst instances.        *)
EXTENDS BBObjects, TLC, Json
CONSTANTS Depth, MaxInst
VARIABLE hist
vars == <<heap, objs, next, hist>>

\* T: cells 1..13   target X8_01 (shots=10, flags=[1, 2]) ; G({a}, 2*q1) | 0 ; Vac | 1 ; K(l=[1, 2]) | 0 ; variables M = [[{b}, 2]], v = {b}
\* P: cells 14..20  Vac | 0 ; H(5, 2*q0) | 1 ; variable N = [[3, 4]]
InitHeap == [c \in 1..20 |->
  CASE c = 1 -> [k |-> "op", name |-> "G", hasargs |-> TRUE, args |-> 2, kw |-> 3, modes |-> <<0>>]
    [] c = 2 -> [k |-> "list", xs |-> <<SymP("a"), Ref(13)>>]
    [] c = 3 -> [k |-> "dict", items |-> <<>>]
    [] c = 4 -> [k |-> "op", name |-> "Vac", hasargs |-> FALSE, args |-> 0, kw |-> 0, modes |-> <<1>>]
    [] c = 5 -> [k |-> "op", name |-> "K", hasargs |-> TRUE, args |-> 6, kw |-> 7, modes |-> <<0>>]
    [] c = 6 -> [k |-> "list", xs |-> <<>>]
    [] c = 7 -> [k |-> "dict", items |-> <<[key |-> "l", v |-> Ref(8)]>>]
    [] c = 8 -> [k |-> "list", xs |-> <<Num(1), Num(2)>>]
    [] c = 9 -> [k |-> "dict", items |-> <<[key |-> "M", v |-> Ref(10)], [key |-> "v", v |-> SymP("b")]>>]      \* variables of T
    [] c = 10 -> [k |-> "arr", rows |-> << <<SymP("b"), Num(2)>> >>]
    [] c = 11 -> [k |-> "dict", items |-> <<[key |-> "shots", v |-> Num(10)], [key |-> "flags", v |-> Ref(12)]>>]  \* target options of T
    [] c = 12 -> [k |-> "list", xs |-> <<Num(1), Num(2)>>]
    [] c = 13 -> [k |-> "rrt", regs |-> <<1>>]                                       \* the transform 2*q1 of G's second argument
    [] c = 14 -> [k |-> "op", name |-> "Vac", hasargs |-> FALSE, args |-> 0, kw |-> 0, modes |-> <<0>>]
    [] c = 15 -> [k |-> "op", name |-> "H", hasargs |-> TRUE, args |-> 16, kw |-> 17, modes |-> <<1>>]
    [] c = 16 -> [k |-> "list", xs |-> <<Num(5), [k |-> "rrt", r |-> 0]>>]        \* H(5, 2*q0) | 1 : a measured-register argument
    [] c = 17 -> [k |-> "dict", items |-> <<>>]
    [] c = 18 -> [k |-> "dict", items |-> <<[key |-> "N", v |-> Ref(19)]>>]                                        \* variables of P
    [] c = 19 -> [k |-> "arr", rows |-> << <<Num(3), Num(4)>> >>]
    [] c = 20 -> [k |-> "dict", items |-> <<>>]]                                                                     \* target options of P
InitObjs == [n \in {"T", "P"} |-> IF n = "T" THEN [kind |-> "template", lo |-> 1, hi |-> 13, ops |-> <<1, 4, 5>>, vars |-> 9, opts |-> 11, params |-> {"a", "b"}]
                                             ELSE [kind |-> "program", lo |-> 14, hi |-> 20, ops |-> <<14, 15>>, vars |-> 18, opts |-> 20, params |-> {}]]
Init == heap = InitHeap /\ objs = InitObjs /\ next = 21 /\ hist = <<>>
InstNames == {"I1", "I2", "I3"}
Envs == {[p \in {"a", "b"} |-> IF p = "a" THEN 3 ELSE 8], [p \in {"a", "b"} |-> IF p = "a" THEN -1 ELSE 4]}
NInst == Cardinality(DOMAIN objs \cap InstNames)
Log(a) == hist' = Append(hist, a)
ReadOnly(a) == a.act \in {"dumps", "read", "digraph", "match", "call"}
Next == Len(hist) < Depth /\
  \/ \E o \in DOMAIN objs : Dumps(o) /\ Log([act |-> "dumps", o |-> o])
  \/ \E o \in DOMAIN objs : Read(o) /\ Log([act |-> "read", o |-> o])
  \/ \E o \in DOMAIN objs : ToDiGraph(o) /\ Log([act |-> "digraph", o |-> o])
  \/ \E p \in DOMAIN objs : Match("T", p) /\ Log([act |-> "match", t |-> "T", p |-> p])
  \/ \E env \in Envs : NInst < MaxInst /\ LET new == IF NInst = 0 THEN "I1" ELSE IF NInst = 1 THEN "I2" ELSE "I3"
                                          IN Call("T", env, new) /\ Log([act |-> "call", t |-> "T", env |-> env, new |-> new])
  \/ \E o \in (DOMAIN objs) \cap InstNames, k \in {"append_arg", "set_kw", "array_elem", "set_var", "rename_op", "set_option", "append_option_list", "rrt_regref"}, i \in 1..3 :
         Mutate(o, k, i) /\ Log([act |-> "mutate", o |-> o, kind |-> k, i |-> i])
\* ---- the property
Pure == [][\A o \in DOMAIN objs : (hist' # hist /\ ReadOnly(hist'[Len(hist')])) => Content(heap', objs'[o]) = Content(heap, objs[o])]_vars
OnlyTargetChanges == [][\A o \in DOMAIN objs : (hist' # hist /\ hist'[Len(hist')].act = "mutate" /\ hist'[Len(hist')].o # o)
                          => Content(heap', objs'[o]) = Content(heap, objs[o])]_vars
Contents == [o \in DOMAIN objs |-> Content(heap, objs[o])]
Emit == (Len(hist) = Depth) => PrintT(<<"HIST", ToJson([hist |-> hist, final |-> Contents])>>)
=============================================================================
