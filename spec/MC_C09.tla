----------------------------- MODULE MC_C09 -----------------------------
(* C09: programs assembled through the API.  TLC enumerates abstract PROGRAMS (not scripts):   *)
(* 1..NOps operations from a menu with every supported value kind in positional and keyword   *)
(* position and in target/type options, arrays r x c for r, c in 1..3, opaque float/int atoms  *)
(* (-0.0, 5e-324, 1e-300, 1e300, 2^62, -2^63), negative real/imaginary parts, SymPy terms.     *)
(* Checked: Load(Serialize(p)) is a program equal to p (arrays: shape and every element).     *)
EXTENDS BBSerialize, Json
CONSTANT NOps
Atom(k, a) == [k |-> k, x |-> FALSE, term |-> [t |-> "atom", a |-> a]]
Fl(n, d) == Num("float", QNorm(n, d), QZero)
Cx(a, b, c, d) == Num("complex", QNorm(a, b), QNorm(c, d))
Kv(k, v) == [k |-> k, v |-> v]
Op(nm, ha, args, kw, modes) == [op |-> nm, hasargs |-> ha, args |-> args, kw |-> kw, modes |-> modes]
ArrOf(ty, r, c, f(_, _)) == Arr(ty, [i \in 1..r |-> [j \in 1..c |-> f(i, j)]])
IntEl(i, j) == IF (i + j) % 3 = 0 THEN IntV(-(3 * i + j)) ELSE IntV(3 * i + j)
FltEl(i, j) == CASE i = 1 /\ j = 1 -> Atom("float", "negzero") [] i = 2 /\ j = 2 -> Atom("float", "subnormal") [] i = 1 /\ j = 3 -> Atom("float", "huge")
                 [] i = 3 /\ j = 1 -> Atom("float", "tiny") [] (i + j) % 2 = 0 -> Fl(-(2 * i + 1), 4) [] OTHER -> Fl(i, 8 * j)
CpxEl(i, j) == CASE (i + j) % 4 = 0 -> Cx(-i, 1, j, 2) [] (i + j) % 4 = 1 -> Cx(i, 2, -j, 1) [] (i + j) % 4 = 2 -> Cx(-1, 4, -3, 2) [] OTHER -> Cx(0, 1, j, 1)
Shapes == {<<1, 1>>, <<1, 3>>, <<3, 1>>, <<2, 2>>, <<2, 3>>, <<3, 3>>}
Arrays == {ArrOf("int", s[1], s[2], IntEl) : s \in Shapes} \cup {ArrOf("float", s[1], s[2], FltEl) : s \in Shapes}
          \cup {ArrOf("complex", s[1], s[2], CpxEl) : s \in Shapes}
Scalars == { IntV(0), IntV(7), IntV(-3), Atom("int", "i62"), Atom("int", "mi63"),
             Fl(1, 2), Fl(-5, 4), Fl(0, 1), Atom("float", "negzero"), Atom("float", "subnormal"), Atom("float", "tiny"), Atom("float", "huge"), Atom("float", "mhuge"),
             \* floats next to "nice" values (a serialiser that prettifies pi fractions or rounds must not touch them)
             Atom("float", "nearpi"), Atom("float", "pihalf_prev"), Atom("float", "fivepisixth"), Atom("float", "pi"), Atom("float", "mquarterpi_near"),
             Atom("float", "third"), Atom("float", "e"), Atom("float", "sqrt2_next"),
             Cx(1, 1, 2, 1), Cx(-1, 2, 3, 4), Cx(1, 4, -2, 1), Cx(-3, 1, -1, 8), Cx(0, 1, 1, 1), Cx(2, 1, 0, 1),
             Bool(TRUE), Bool(FALSE), Str("hello"), Str("a_b 1") }
Lists == { Lst(<<IntV(1), IntV(-2)>>), Lst(<<Fl(1, 2), IntV(3), Bool(TRUE)>>), Lst(<<Str("x"), Str("yz")>>), Lst(<<Cx(1, 1, -2, 1), Fl(-1, 4)>>), Lst(<<Atom("float", "tiny"), IntV(0)>>) }
Syms == { Sym(TPar("a")), Sym(TBin("*", TNum(Fl(1, 2)), TPar("al"))), Sym(TBin("+", TBin("*", TNum(IntV(2)), TPar("a")), TNeg(TPar("ab")))),
          Sym(TBin("/", TNum(Fl(27, 50)), TBin("**", TPar("x"), TNum(IntV(2))))),
          Sym(TNeg(TBin("**", TPar("x"), TNum(IntV(2))))), Sym(TBin("-", TNum(IntV(1)), TBin("**", TPar("a"), TNum(IntV(3))))) }
PosVals == Scalars \cup Arrays \cup Syms
KwVals == Scalars \cup Arrays \cup Syms \cup Lists
OptVals == {IntV(100), Fl(1, 5), Bool(TRUE), Str("hi"), Cx(1, 1, -2, 1), Lst(<<IntV(1), Fl(5, 2)>>), Lst(<<Str("s"), Bool(FALSE)>>), Atom("float", "huge")}
ModeSets == {<<0>>, <<2, 0>>, <<1, 3, 2>>}
Ops == {Op("Vac", FALSE, <<>>, <<>>, m) : m \in ModeSets} \cup {Op("K", TRUE, <<>>, <<>>, <<1>>)}
       \cup {Op("G", TRUE, <<v>>, <<>>, <<0>>) : v \in PosVals}
       \cup {Op("H", TRUE, <<>>, <<Kv("k", v)>>, <<0, 1>>) : v \in KwVals}
       \cup {Op("J", TRUE, <<v, IntV(1)>>, <<Kv("p", w), Kv("q", v)>>, <<2>>) : v \in {Fl(1, 2), Cx(1, 1, 2, 1), Str("s"), ArrOf("int", 2, 2, IntEl), Sym(TPar("a"))},
                                                                            w \in {IntV(3), Lst(<<IntV(1), IntV(-2)>>), ArrOf("float", 1, 3, FltEl), Bool(FALSE)}}
\* arrays that differ only in shape (same dtype, same row-major contents), and one array used twice
Flat(ty, n) == IF ty = "int" THEN IntV(IF n % 3 = 0 THEN -n ELSE n) ELSE Fl(2 * n + 1, 4)
Reshaped(ty, r, c) == ArrOf(ty, r, c, LAMBDA i, j : Flat(ty, (i - 1) * c + j))
ReshapePairs == {<<Reshaped(ty, s[1], s[2]), Reshaped(ty, s[3], s[4])>> : ty \in {"int", "float"},
                    s \in {<<1, 4, 2, 2>>, <<4, 1, 1, 4>>, <<2, 3, 3, 2>>, <<2, 2, 2, 2>>, <<1, 6, 2, 3>>}}
TwoArrayOps == {Op("Two", TRUE, <<pr[1], pr[2]>>, <<>>, <<0, 1>>) : pr \in ReshapePairs}
               \cup {Op("TwoK", TRUE, <<pr[2]>>, <<Kv("u", pr[1]), Kv("w", pr[2])>>, <<0>>) : pr \in ReshapePairs}
Targets == {[name |-> "", opts |-> <<>>], [name |-> "chip0", opts |-> <<>>]} \cup {[name |-> "dev", opts |-> <<Kv("o", v)>>] : v \in OptVals}
           \cup {[name |-> "X8_01", opts |-> <<Kv("shots", IntV(100)), Kv("hbar", Fl(1, 5)), Kv("real", Bool(TRUE)), Kv("label", Str("hi"))>>]}
SetToSeq(S) == LET RECURSIVE F(_) F(T) == IF T = {} THEN <<>> ELSE LET x == CHOOSE y \in T : TRUE IN <<x>> \o F(T \ {x}) IN F(S)
MkProg(tg, ty, ops) == [name |-> "prog", version |-> "1.0", target |-> tg, type |-> ty, ops |-> ops,
                        modes |-> UNION {{ops[i].modes[j] : j \in 1..Len(ops[i].modes)} : i \in 1..Len(ops)}, vars |-> <<>>,
                        params |-> SetToSeq(UNION {OpPars(ops[i]) : i \in 1..Len(ops)})]
NoFS9(f) == NoFile
Types == {[name |-> "", opts |-> <<>>], [name |-> "sampling", opts |-> <<>>], [name |-> "foo", opts |-> <<Kv("copies", IntV(2))>>]}
SomeTargets == {[name |-> "", opts |-> <<>>], [name |-> "chip0", opts |-> <<>>],
                [name |-> "X8_01", opts |-> <<Kv("shots", IntV(10)), Kv("label", Str("run")), Kv("cut", Lst(<<IntV(1), Fl(5, 2), Bool(TRUE)>>))>>]}
\* tdm programs assembled through the API the way the repository's tests do: declared p-arrays (one of them with two rows) in the variables,
\* passed by name, next to arrays passed by value (which the serialiser hoists into declarations of their own)
TdmVars == << [n |-> "p0", v |-> ArrOf("float", 1, 2, LAMBDA i, j : Fl(2 * j + 1, 4))], [n |-> "p1", v |-> ArrOf("float", 2, 2, LAMBDA i, j : Fl(i, 8 * j))],
              [n |-> "p12", v |-> ArrOf("int", 3, 1, IntEl)] >>
TdmType == [name |-> "tdm", opts |-> <<Kv("temporal_modes", IntV(2))>>]
ByValue == {ArrOf("int", 2, 2, IntEl), ArrOf("float", 1, 3, FltEl), ArrOf("complex", 2, 3, CpxEl), ArrOf("float", 1, 2, LAMBDA i, j : Fl(2 * j + 1, 4))}
TdmProgs == {[MkProg([name |-> "", opts |-> <<>>], TdmType, ops) EXCEPT !.vars = SubSeq(TdmVars, 1, nv)] :
               nv \in 2..3,
               ops \in {<<Op("G", TRUE, <<PName("p0"), a>>, <<Kv("k", PName("p1"))>>, <<0>>)>> : a \in ByValue}
                       \cup {<<Op("G", TRUE, <<PName("p1")>>, <<Kv("u", a), Kv("w", b)>>, <<0, 1>>), Op("H", TRUE, <<b, PName("p0")>>, <<>>, <<1>>)>> : a \in ByValue, b \in ByValue \cup {Fl(1, 2)}}
                       \cup {<<Op("G", TRUE, <<PName("p0"), PName("p1")>>, <<>>, <<0>>)>>}}
VARIABLES p, done
Init == done = FALSE /\ \/ \E o \in Ops, tg \in Targets : p = MkProg(tg, [name |-> "", opts |-> <<>>], <<o>>)
                        \/ \E tg \in SomeTargets, ty \in Types, o \in {x \in Ops : x.op \in {"Vac", "K"}} : p = MkProg(tg, ty, <<o>>)
                        \/ p \in TdmProgs
                        \/ \E o \in TwoArrayOps : p = MkProg([name |-> "", opts |-> <<>>], [name |-> "", opts |-> <<>>], <<o>>)
                        \/ \E o1 \in TwoArrayOps, o2 \in TwoArrayOps : p = MkProg([name |-> "", opts |-> <<>>], [name |-> "", opts |-> <<>>], <<o1, o2>>)
                        \/ \E o \in Ops : p = MkProg([name |-> "", opts |-> <<>>], [name |-> "foo", opts |-> <<Kv("copies", IntV(2))>>], <<o>>)
                        \/ (NOps >= 2 /\ \E o1 \in Ops, o2 \in {o \in Ops : o.op \in {"Vac", "J"}} : p = MkProg([name |-> "", opts |-> <<>>], [name |-> "", opts |-> <<>>], <<o1, o2>>))
Next == ~done /\ done' = TRUE /\ UNCHANGED p
Back == Load(Serialize(p))
RoundTrip == done => (Back.k = "ok" /\ SameProgram(Back.prog, p) /\ Back.prog.modes = p.modes)
Emit == done => PrintT(<<"CASE", ToJson([p |-> p])>>)
=============================================================================
