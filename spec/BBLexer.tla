---------------------------- MODULE BBLexer ----------------------------
(* The lexer of blackbird.g4 as a machine over character classes: maximal munch, the         *)
(* earliest rule wins ties, rules marked "-> skip" produce no token.  One step per character *)
(* plus one Emit step at each munch point.  LexG4Data is generated from the .g4 file.        *)
EXTENDS Integers, Sequences, FiniteSets
G == INSTANCE LexG4Data
R == INSTANCE BBRegex WITH Body <- G!LBody

TopRules == {i \in 1..Len(G!LBody) : ~G!IsFragment[i]}
LStart == {<<i, G!LBody[i]>> : i \in TopRules}
LStep(C, ch) == UNION {{<<c[1], p[2]>> : p \in {q \in R!LFInline(c[2]) : ch \in q[1]}} : c \in C}
LAcc(C) == {c[1] : c \in {d \in C : R!Nullable(d[2])}}
MinOf(S) == CHOOSE x \in S : \A y \in S : x <= y
NoMatch == <<0, 0>>

\* lexer state: pos = next character (1-based), start = first character of the current token,
\* cfg = live rule residuals, last = <<rule, end>> of the longest match found so far
LexInit == [pos |-> 1, start |-> 1, cfg |-> LStart, last |-> NoMatch]
CanRead(st, text) == st.pos <= Len(text) /\ LStep(st.cfg, text[st.pos]) # {}
Read(st, text) ==
  LET n == LStep(st.cfg, text[st.pos]) IN
    [st EXCEPT !.pos = st.pos + 1, !.cfg = n,
               !.last = IF LAcc(n) # {} THEN <<MinOf(LAcc(n)), st.pos>> ELSE st.last]
\* at a munch point: the token <<type, start, stop>> (0-based inclusive, as ANTLR reports)
Munched(st) == [ty |-> G!TokType[st.last[1]], start |-> st.start - 1, stop |-> st.last[2] - 1,
                skip |-> G!IsSkip[st.last[1]]]
AfterEmit(st) == [pos |-> st.last[2] + 1, start |-> st.last[2] + 1, cfg |-> LStart, last |-> NoMatch]
AtEnd(st, text) == st.start > Len(text)
=============================================================================
