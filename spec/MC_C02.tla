----------------------------- MODULE MC_C02 -----------------------------
(* Menus for C02/C06-style exploration: metadata variants and body items of every kind.      *)
EXTENDS MC_Load
I(n) == [t |-> "int", n |-> n]
F(n, d) == [t |-> "flt", n |-> n, d |-> d]
Var(x) == [t |-> "var", x |-> x]
NoArgs == [hasargs |-> FALSE, args |-> <<>>, kw |-> <<>>]
Meta(nm, tg, ty) == [name |-> nm, version |-> "1.0", target |-> tg, type |-> ty, incs |-> <<>>, body |-> <<>>]
NoM == [name |-> ""] @@ NoArgs
Stmt(op, ha, args, kw, modes, br) == [t |-> "stmt", op |-> op, hasargs |-> ha, args |-> args, kw |-> kw, modes |-> modes, br |-> br]
Kw(k, v) == [k |-> k, v |-> v]
LstE(xs) == [t |-> "lst", xs |-> xs]

Metas == { Meta("prog", NoM, NoM),
           Meta("test_1", [name |-> "gaussian"] @@ NoArgs, NoM),
           Meta("p2", [name |-> "dev", hasargs |-> TRUE, args |-> <<>>,
                       kw |-> <<Kw("shots", I(10)), Kw("flag", [t |-> "bool", b |-> TRUE]), Kw("l", LstE(<<I(1), F(5, 2)>>)), Kw("s", [t |-> "str", s |-> "x"])>>],
                      [name |-> "foo", hasargs |-> TRUE, args |-> <<>>, kw |-> <<Kw("copies", I(3))>>]),
           Meta("p3", [name |-> "dev", hasargs |-> TRUE, args |-> <<>>,
                       kw |-> <<Kw("cutoffs", LstE(<<I(5), I(7)>>)), Kw("labels", LstE(<<[t |-> "str", s |-> "a"], [t |-> "str", s |-> "b"]>>)), Kw("shots", I(3))>>],
                      [name |-> "foo", hasargs |-> TRUE, args |-> <<>>, kw |-> <<Kw("u", LstE(<<I(1)>>)), Kw("v", LstE(<<F(1, 2), I(2)>>))>>]),
           \* p-arrays are special under the exact type name "tdm" only
           Meta("p5", NoM, [name |-> "TDM"] @@ NoArgs), Meta("p6", NoM, [name |-> "tdm"] @@ NoArgs),
           \* positional options are evaluated and ignored (with a warning); only the keyword options are kept
           Meta("p4", [name |-> "dev", hasargs |-> TRUE, args |-> <<I(3), F(1, 2)>>, kw |-> <<Kw("shots", I(7))>>],
                      [name |-> "foo", hasargs |-> TRUE, args |-> <<[t |-> "str", s |-> "x"]>>, kw |-> <<>>]) }

Items == {
  [t |-> "var", ty |-> "float", x |-> "al", e |-> F(1, 2)],
  [t |-> "var", ty |-> "int", x |-> "n", e |-> I(2)],
  [t |-> "var", ty |-> "complex", x |-> "z", e |-> [t |-> "cpx", re |-> <<1, 1>>, im |-> <<2, 1>>]],
  [t |-> "var", ty |-> "str", x |-> "s", e |-> [t |-> "str", s |-> "hi"]],
  [t |-> "var", ty |-> "bool", x |-> "b", e |-> [t |-> "bool", b |-> TRUE]],
  [t |-> "var", ty |-> "float", x |-> "y", e |-> [t |-> "bin", op |-> "*", l |-> Var("al"), r |-> I(3)]],
  [t |-> "arr", ty |-> "int", x |-> "A", shape |-> <<>>, rows |-> << <<I(1), I(2)>>, <<I(3), I(0)>> >>],
  [t |-> "arr", ty |-> "float", x |-> "B", shape |-> <<1, 2>>, rows |-> << <<F(1, 2), I(3)>> >>],
  Stmt("Vac", FALSE, <<>>, <<>>, <<I(0)>>, "none"),
  Stmt("MeasureX", FALSE, <<>>, <<>>, <<I(1)>>, "none"),
  Stmt("Sgate", TRUE, <<F(1, 2)>>, <<>>, <<I(0)>>, "none"),
  Stmt("BSgate", TRUE, <<F(1, 4), Var("n")>>, <<>>, <<I(0), I(1)>>, "sq"),
  Stmt("Dgate", TRUE, <<Var("al")>>, <<Kw("phi", F(1, 4))>>, <<I(1)>>, "par"),
  Stmt("G", TRUE, <<>>, <<Kw("k", LstE(<<I(1), F(5, 2)>>)), Kw("s", [t |-> "str", s |-> "a"]), Kw("b", [t |-> "bool", b |-> FALSE])>>, <<I(3), I(1)>>, "none"),
  Stmt("R", TRUE, <<[t |-> "idx", x |-> "A", e |-> I(1)]>>, <<>>, <<[t |-> "idx", x |-> "A", e |-> I(3)]>>, "none"),
  Stmt("MeasureHomodyne", TRUE, <<>>, <<Kw("phi", [t |-> "neg", a |-> Var("y")]), Kw("select", Var("n"))>>, <<Var("n")>>, "none"),
  Stmt("K", TRUE, <<>>, <<>>, <<I(2)>>, "sq"),
  \* free parameters: an ordinary name, names that merely begin like the reserved p<digits> names, and a reserved one
  Stmt("Pq", TRUE, <<[t |-> "par", p |-> "p2x"]>>, <<Kw("k", [t |-> "par", p |-> "p0_bs"])>>, <<I(0)>>, "none"),
  [t |-> "arr", ty |-> "float", x |-> "p0", shape |-> <<>>, rows |-> << <<F(1, 2), F(3, 2)>> >>],
  Stmt("Xp", TRUE, <<Var("p0")>>, <<Kw("phi", Var("p0"))>>, <<I(1)>>, "none"),
  Stmt("Sx", TRUE, <<[t |-> "str", s |-> "1,2"], [t |-> "str", s |-> "# x | 1"]>>, <<Kw("l", LstE(<<[t |-> "str", s |-> "10,000"], I(3)>>))>>, <<I(0)>>, "none"),
  Stmt("Pa", TRUE, <<[t |-> "par", p |-> "al"], [t |-> "bin", op |-> "*", l |-> Var("al"), r |-> I(2)]>>, <<Kw("k", Var("n"))>>, <<I(0)>>, "none"),     \* {al} next to the variable al
  Stmt("Pr", TRUE, <<[t |-> "par", p |-> "p3"], [t |-> "par", p |-> "alpha"]>>, <<>>, <<I(1)>>, "none"),
  Stmt("MeasureFock", TRUE, <<>>, <<Kw("select", LstE(<<I(0), I(2)>>)), Kw("dark_counts", LstE(<<[t |-> "bool", b |-> TRUE], F(1, 2)>>)), Kw("x", LstE(<<I(7)>>))>>, <<I(0), I(1)>>, "sq"),
  Stmt("S2gate", TRUE, <<Var("z"), Var("s"), Var("b")>>, <<>>, <<[t |-> "bin", op |-> "+", l |-> Var("n"), r |-> I(1)]>>, "none"),
  [t |-> "for", ty |-> "int", x |-> "i", hdr |-> [t |-> "range", a |-> 0, b |-> 3, c |-> 2, hasc |-> TRUE],
     body |-> <<Stmt("L", TRUE, <<Var("i")>>, <<>>, <<Var("i")>>, "none")>>],
  [t |-> "for", ty |-> "float", x |-> "f", hdr |-> [t |-> "vals", br |-> "sq", xs |-> <<F(1, 2), I(2)>>],
     body |-> <<Stmt("Rf", TRUE, <<Var("f")>>, <<Kw("k", Var("f"))>>, <<I(0)>>, "none"), Stmt("MeasureFock", FALSE, <<>>, <<>>, <<I(1)>>, "none")>>],
  [t |-> "for", ty |-> "int", x |-> "j", hdr |-> [t |-> "vals", br |-> "none", xs |-> <<I(1), I(4)>>],
     body |-> <<Stmt("Lk", TRUE, <<>>, <<Kw("a", LstE(<<Var("j"), I(0)>>)), Kw("b", LstE(<<I(9), Var("j")>>))>>, <<Var("j")>>, "none")>>]
}
\* an indexed array declared again under the same name (other contents, other size), reads and index arithmetic before and after
Redecl == { [t |-> "arr", ty |-> "int", x |-> "A", shape |-> <<>>, rows |-> << <<I(1), I(2)>>, <<I(3), I(0)>> >>],
            [t |-> "arr", ty |-> "int", x |-> "A", shape |-> <<>>, rows |-> << <<I(4), I(3), I(2), I(1), I(0)>> >>],
            Stmt("R", TRUE, <<[t |-> "idx", x |-> "A", e |-> I(1)]>>, <<>>, <<[t |-> "idx", x |-> "A", e |-> I(3)]>>, "none"),
            [t |-> "for", ty |-> "int", x |-> "i", hdr |-> [t |-> "range", a |-> 0, b |-> 2, c |-> 0, hasc |-> FALSE],
               body |-> <<Stmt("L", TRUE, <<[t |-> "idx", x |-> "A", e |-> Var("i")]>>, <<>>, <<Var("i")>>, "none")>>] }
=============================================================================
