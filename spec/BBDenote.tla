---------------------------- MODULE BBDenote ----------------------------
(* Declarative meaning of a script, independent of the listener mechanics: for-loops are      *)
(* unrolled textually (the loop variable replaced by a literal of its converted value), then  *)
(* the straight-line script is folded item by item with an environment passed along -- no     *)
(* process-wide tables, no deferred bodies, no program counter.                               *)
(* Denote(s) folds the script item by item with an environment passed along; a loop is the    *)
(* body once per value with the variable bound.  Unroll(s) is the TEXTUAL unrolling.          *)
(* C02 states Load(s) = Denote(s); C06 states Load(s) = Load(Unroll(s)) = Denote(Unroll(s)).   *)
EXTENDS BBLoad

\* ---- literals for values (only values that can be written as a literal are unrollable)
Writable(v) == (IsExact(v) /\ v.k \in {"int", "float"}) \/ v.k \in {"str", "bool"}
LitOf(v) == CASE v.k = "int" -> (IF v.re[1] >= 0 THEN [t |-> "int", n |-> v.re[1]]
                                 ELSE [t |-> "brk", a |-> [t |-> "neg", a |-> [t |-> "int", n |-> -v.re[1]]]])
              [] v.k = "float" -> (IF v.re[1] >= 0 THEN [t |-> "flt", n |-> v.re[1], d |-> v.re[2]]
                                   ELSE [t |-> "brk", a |-> [t |-> "neg", a |-> [t |-> "flt", n |-> -v.re[1], d |-> v.re[2]]]])
              [] v.k = "str" -> [t |-> "str", s |-> v.s]
              [] v.k = "bool" -> [t |-> "bool", b |-> v.b]

RECURSIVE SubstE(_, _, _)
SubstE(e, x, lit) == CASE e.t = "var" -> (IF e.x = x THEN lit ELSE e)
                       [] e.t = "idx" -> [e EXCEPT !.e = SubstE(e.e, x, lit)]
                       [] e.t \in {"brk", "neg", "pos", "fn"} -> [e EXCEPT !.a = SubstE(e.a, x, lit)]
                       [] e.t = "bin" -> [e EXCEPT !.l = SubstE(e.l, x, lit), !.r = SubstE(e.r, x, lit)]
                       [] OTHER -> e
SubstV(v, x, lit) == IF v.t = "lst" THEN [v EXCEPT !.xs = [i \in 1..Len(v.xs) |-> SubstE(v.xs[i], x, lit)]] ELSE SubstE(v, x, lit)
SubstStmt(st, x, lit) == [st EXCEPT !.args = [i \in 1..Len(st.args) |-> SubstE(st.args[i], x, lit)],
                                    !.kw = [i \in 1..Len(st.kw) |-> [k |-> st.kw[i].k, v |-> SubstV(st.kw[i].v, x, lit)]],
                                    !.modes = [i \in 1..Len(st.modes) |-> SubstE(st.modes[i], x, lit)]]

\* the values a loop header denotes, given the environment at the loop (ranges need none)
LoopVals(it, V, PN) == LET raw == IF it.hdr.t = "range" THEN Range(it.hdr.a, it.hdr.b, IF it.hdr.hasc THEN it.hdr.c ELSE 1)
                                     ELSE EvalSeq(it.hdr.xs, V, PN)
                       IN [i \in 1..Len(raw) |-> LoopConv(it.ty, raw[i])]
\* a loop is unrollable when every value is a writable literal (otherwise Unroll leaves the script alone)
Unrollable(it, V, PN) == \A i \in 1..Len(LoopVals(it, V, PN)) : Writable(LoopVals(it, V, PN)[i])
UnrollLoop(it, V, PN) == LET vs == LoopVals(it, V, PN) IN
  LET RECURSIVE F(_) F(i) == IF i > Len(vs) THEN <<>>
                             ELSE [j \in 1..Len(it.body) |-> SubstStmt(it.body[j], it.x, LitOf(vs[i]))] \o F(i + 1) IN F(1)

\* environment of declarations before body position i (loops declare nothing that survives them)
RECURSIVE EnvAt(_, _)
EnvAt(body, i) == IF i = 0 THEN <<>>
                  ELSE LET V == EnvAt(body, i - 1) it == body[i] IN
                       CASE it.t = "var" -> LET v == Conv(it.ty, Eval(it.e, V, {})) IN IF IsBad(v) THEN V ELSE Put(V, it.x, v)
                         [] it.t = "arr" -> LET v == ArrayValue(it, V, {}) IN IF IsBad(v) THEN V ELSE Put(V, it.x, v)
                         [] OTHER -> V
CanUnroll(s) == \A i \in 1..Len(s.body) : s.body[i].t = "for" =>
                   (s.body[i].hdr.t = "range" \/ Unrollable(s.body[i], EnvAt(s.body, i - 1), {}))
                   /\ ~(s.body[i].hdr.t = "range" /\ s.body[i].hdr.hasc /\ s.body[i].hdr.c = 0)
Unroll(s) == [s EXCEPT !.body = LET RECURSIVE F(_) F(i) == IF i > Len(s.body) THEN <<>>
                                    ELSE (IF s.body[i].t = "for" THEN UnrollLoop(s.body[i], EnvAt(s.body, i - 1), {}) ELSE <<s.body[i]>>) \o F(i + 1)
                                 IN F(1)]

\* ---- straight-line fold (no loops, no includes)
MetaOf(m) == IF ~m.hasargs THEN [k |-> "ok", v |-> [name |-> m.name, opts |-> <<>>]]
             ELSE LET r == EvalArgs(m, <<>>, {}) IN IF r.bad # None THEN r.bad ELSE [k |-> "ok", v |-> [name |-> m.name, opts |-> r.kw]]
OpOf(st, V, PN) ==
  LET ms == [i \in 1..Len(st.modes) |-> ModeOf(Eval(st.modes[i], V, PN))]
      r == IF st.hasargs THEN EvalArgs(st, V, PN) ELSE [args |-> <<>>, kw |-> <<>>, bad |-> None, ps |-> <<>>]
  IN IF SeqBad(ms, 1) # None THEN SeqBad(ms, 1)
     ELSE IF r.bad # None THEN r.bad
     ELSE [k |-> "ok", op |-> [op |-> st.op, hasargs |-> st.hasargs, args |-> [i \in 1..Len(r.args) |-> Deliver(r.args[i])],
                               kw |-> [i \in 1..Len(r.kw) |-> [k |-> r.kw[i].k, v |-> Deliver(r.kw[i].v)]],
                               modes |-> [i \in 1..Len(ms) |-> ms[i].re[1]]],
           ps |-> ParamsSeq(st.modes) \o [i \in 1..Len(r.ps) |-> r.ps[i].n]]
RECURSIVE Go(_, _, _, _, _, _)
Go(s, i, V, PN, ps, ops) ==
  IF i > Len(s.body)
  THEN [k |-> "ok", V |-> V, ps |-> ps, ops |-> ops]
  ELSE LET it == s.body[i] IN
       CASE it.t = "var" ->
              IF it.x \in Reserved \/ (\E n \in 0..99 : it.x = "q" \o ToString(n)) THEN Raise("BSE", it.x)
              ELSE LET v == Conv(it.ty, Eval(it.e, V, PN)) IN
                   IF IsBad(v) THEN v ELSE Go(s, i + 1, Put(V, it.x, v), PN, ps \o ParamsIn(it.e), ops)
         [] it.t = "arr" ->
              IF it.x \in Reserved \/ (\E n \in 0..99 : it.x = "q" \o ToString(n)) THEN Raise("BSE", it.x)
              ELSE LET v == ArrayValue(it, V, PN) ap == ArrayParams(it) IN
                   IF IsBad(v) THEN v
                   ELSE Go(s, i + 1, Put(V, it.x, v), IF s.type.name = "tdm" /\ IsPType(it.x) THEN PN \cup {it.x} ELSE PN,
                           ps \o [j \in 1..Len(ap) |-> ap[j].n], ops)
         [] it.t = "stmt" ->
              LET r == OpOf(it, V, PN) IN IF r.k # "ok" THEN r ELSE Go(s, i + 1, V, PN, ps \o r.ps, Append(ops, r.op))
         [] it.t = "for" ->
              \* the body once per value, in order, with the loop variable bound to the converted value;
              \* nothing of the loop variable survives the loop
              LET vs == IF it.hdr.t = "range" THEN Range(it.hdr.a, it.hdr.b, IF it.hdr.hasc THEN it.hdr.c ELSE 1)
                        ELSE EvalSeq(it.hdr.xs, V, PN)
                  hps == IF it.hdr.t = "range" THEN <<>> ELSE ParamsSeq(it.hdr.xs)
                  RECURSIVE Body(_, _, _, _)
                  Body(vi, si, ps2, ops2) ==
                    IF vi > Len(vs) THEN [k |-> "ok", ps |-> ps2, ops |-> ops2]
                    ELSE LET v == LoopConv(it.ty, vs[vi]) IN
                         IF IsBad(v) THEN v
                         ELSE IF si > Len(it.body) THEN Body(vi + 1, 1, ps2, ops2)
                         ELSE LET r == OpOf(it.body[si], Put(V, it.x, v), PN) IN
                              IF r.k # "ok" THEN r ELSE Body(vi, si + 1, ps2 \o r.ps, Append(ops2, r.op))
                  res == Body(1, 1, ps \o hps, ops)
              IN IF it.hdr.t = "range" /\ it.hdr.hasc /\ it.hdr.c = 0 THEN Raise("other", "zerostep")
                 ELSE IF SeqBad(vs, 1) # None THEN SeqBad(vs, 1)
                 ELSE IF Has(V, it.x) THEN U("BBDenote:101")
                 ELSE IF res.k # "ok" THEN res ELSE Go(s, i + 1, V, PN, res.ps, res.ops)
         [] OTHER -> U("BBDenote:103")
Straight(s) ==
  LET tg == MetaOf(s.target) ty == MetaOf(s.type) IN
  IF tg.k # "ok" THEN tg ELSE IF ty.k # "ok" THEN ty
  ELSE LET r == Go(s, 1, <<>>, {}, <<>>, <<>>) IN
       IF r.k # "ok" THEN r
       ELSE [k |-> "ok", prog |-> [name |-> s.name, version |-> s.version, target |-> tg.v, type |-> ty.v, ops |-> r.ops,
                                   modes |-> UNION {{r.ops[i].modes[j] : j \in 1..Len(r.ops[i].modes)} : i \in 1..Len(r.ops)},
                                   vars |-> r.V, params |-> SelectSeq(r.ps, LAMBDA p : ~IsPType(p))]]
Denote(s) == Straight(s)
\* two outcomes agree when both are programs and equal, or both refuse (the class matters only for BlackbirdSyntaxError)
SameOutcome(a, b) == \/ a.k = "unspec" \/ b.k = "unspec"
                     \/ (a.k = "ok" /\ b.k = "ok" /\ a.prog = b.prog)
                     \/ (a.k = "raise" /\ b.k = "raise" /\ (a.cls = "BSE") = (b.cls = "BSE"))
=============================================================================
