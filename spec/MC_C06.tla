----------------------------- MODULE MC_C06 -----------------------------
(* C06: loop headers x bodies.  Every int/float range over 0..3 with and without step        *)
(* (including empty ranges), value lists in all three bracket styles over int, float, bool,  *)
(* str values and expressions, bodies using the loop variable in modes, arguments, keyword   *)
(* arguments and array indices; items before and after the loop.                             *)
EXTENDS MC_Load
I(n) == [t |-> "int", n |-> n]
F(n, d) == [t |-> "flt", n |-> n, d |-> d]
Var(x) == [t |-> "var", x |-> x]
NoArgs == [hasargs |-> FALSE, args |-> <<>>, kw |-> <<>>]
NoM == [name |-> ""] @@ NoArgs
Metas == {[name |-> "loops", version |-> "1.0", target |-> NoM, type |-> NoM, incs |-> <<>>, body |-> <<>>]}
Stmt(op, ha, args, kw, modes, br) == [t |-> "stmt", op |-> op, hasargs |-> ha, args |-> args, kw |-> kw, modes |-> modes, br |-> br]
Kw(k, v) == [k |-> k, v |-> v]
Bin(op, l, r) == [t |-> "bin", op |-> op, l |-> l, r |-> r]

\* declared before every script: an array to index and a scalar
Pre == << [t |-> "arr", ty |-> "int", x |-> "A", shape |-> <<>>, rows |-> << <<I(5), I(7), I(1), I(4)>> >>],
          [t |-> "var", ty |-> "float", x |-> "c", e |-> F(1, 2)] >>

Ranges(ty) == {[t |-> "range", a |-> a, b |-> b, c |-> c, hasc |-> c # 0] : a \in 0..3, b \in 0..3, c \in {0, 1, 2}}
IntLists == { <<I(2)>>, <<I(3), I(0)>>, <<I(1), Bin("+", I(1), I(1)), [t |-> "idx", x |-> "A", e |-> I(2)]>>, <<I(1), F(5, 2)>>, <<I(0), [t |-> "str", s |-> "a"]>> }
FloatLists == { <<F(1, 2)>>, <<F(1, 4), I(2), Bin("*", Var("c"), I(3))>>, <<F(1, 2), [t |-> "str", s |-> "x"]>> }
BoolLists == { <<[t |-> "bool", b |-> TRUE], [t |-> "bool", b |-> FALSE]>>, <<[t |-> "bool", b |-> TRUE], [t |-> "str", s |-> "no"]>> }
StrLists == { <<[t |-> "str", s |-> "a"], [t |-> "str", s |-> "bc"]>>, <<[t |-> "str", s |-> "a"], I(3)>> }
Lists(XS) == {[t |-> "vals", br |-> br, xs |-> xs] : br \in {"sq", "par", "none"}, xs \in XS}

\* bodies; v is the loop variable
IntBodies(v) == { <<Stmt("G", TRUE, <<Var(v)>>, <<>>, <<Var(v)>>, "none")>>,
                  <<Stmt("H", TRUE, <<Bin("*", Var(v), F(1, 2))>>, <<Kw("k", Var(v))>>, <<Bin("+", Var(v), I(1)), I(0)>>, "sq"),
                    Stmt("MeasureX", FALSE, <<>>, <<>>, <<[t |-> "idx", x |-> "A", e |-> Var(v)]>>, "none")>>,
                  <<Stmt("K", TRUE, <<[t |-> "idx", x |-> "A", e |-> Var(v)], Var("c")>>, <<Kw("l", [t |-> "lst", xs |-> <<Var(v), I(9)>>])>>, <<I(1)>>, "par")>> }
ValBodies(v) == { <<Stmt("R", TRUE, <<Var(v)>>, <<Kw("p", Var(v))>>, <<I(0)>>, "none")>>,
                  <<Stmt("R", TRUE, <<Var(v)>>, <<>>, <<I(0)>>, "none"), Stmt("Vac", FALSE, <<>>, <<>>, <<I(2)>>, "none")>> }
FloatBodies(v) == ValBodies(v) \cup { <<Stmt("S", TRUE, <<Bin("-", Var(v), Var("c"))>>, <<>>, <<I(1)>>, "none")>> }

For(ty, v, hdr, body) == [t |-> "for", ty |-> ty, x |-> v, hdr |-> hdr, body |-> body]
Loops == {For("int", "i", h, b) : h \in Ranges("int") \cup Lists(IntLists), b \in IntBodies("i")}
         \cup {For("float", "x", h, b) : h \in {r \in Ranges("float") : r.a < 2 /\ r.c < 2} \cup Lists(FloatLists), b \in FloatBodies("x")}
         \cup {For("bool", "b", h, b2) : h \in Lists(BoolLists), b2 \in ValBodies("b")}
         \cup {For("str", "s", h, b) : h \in Lists(StrLists), b \in ValBodies("s")}
Plain == { Stmt("Vac", FALSE, <<>>, <<>>, <<I(3)>>, "none"),
           Stmt("U", TRUE, <<Var("i")>>, <<>>, <<I(0)>>, "none"),            \* uses a loop variable: refused unless inside a loop
           [t |-> "var", ty |-> "int", x |-> "m", e |-> I(2)] }
SmallLoops == { For("int", "i", [t |-> "range", a |-> 0, b |-> 2, c |-> 0, hasc |-> FALSE], <<Stmt("G", TRUE, <<Var("i")>>, <<>>, <<Var("i")>>, "none")>>),
                For("int", "i", [t |-> "range", a |-> 2, b |-> 1, c |-> 0, hasc |-> FALSE], <<Stmt("G", TRUE, <<Var("i")>>, <<>>, <<Var("i")>>, "none")>>),
                For("int", "j", [t |-> "vals", br |-> "sq", xs |-> <<I(3), I(1)>>], <<Stmt("L", TRUE, <<Var("j")>>, <<>>, <<Var("j"), I(0)>>, "none"), Stmt("MeasureP", FALSE, <<>>, <<>>, <<Var("j")>>, "none")>>),
                For("float", "x", [t |-> "vals", br |-> "none", xs |-> <<F(1, 2), F(3, 2)>>], <<Stmt("R", TRUE, <<Var("x")>>, <<Kw("p", Var("x"))>>, <<I(0)>>, "none")>>),
                For("str", "s", [t |-> "vals", br |-> "par", xs |-> <<[t |-> "str", s |-> "a"]>>], <<Stmt("T", TRUE, <<Var("s")>>, <<>>, <<I(0)>>, "none")>>) }
Mixed == Plain \cup SmallLoops
\* the same loop (same variable, same body text) run again over overlapping values after what its body reads was declared again
BodyK == <<Stmt("K", TRUE, <<[t |-> "idx", x |-> "A", e |-> Var("i")], Var("c")>>, <<Kw("l", [t |-> "lst", xs |-> <<Var("i"), I(9)>>])>>, <<I(1)>>, "par")>>
Again == { For("int", "i", [t |-> "range", a |-> 0, b |-> 2, c |-> 0, hasc |-> FALSE], BodyK),
           For("int", "i", [t |-> "vals", br |-> "sq", xs |-> <<I(1), I(3)>>], BodyK),
           For("float", "i", [t |-> "vals", br |-> "sq", xs |-> <<I(1)>>], <<Stmt("R", TRUE, <<Var("i")>>, <<Kw("p", Var("c"))>>, <<I(0)>>, "none")>>),
           For("int", "i", [t |-> "vals", br |-> "none", xs |-> <<I(1), I(2)>>], <<Stmt("R", TRUE, <<Var("i")>>, <<Kw("p", Var("c"))>>, <<I(0)>>, "none")>>),
           [t |-> "var", ty |-> "float", x |-> "c", e |-> F(3, 2)],
           [t |-> "arr", ty |-> "int", x |-> "A", shape |-> <<>>, rows |-> << <<I(9), I(8)>>, <<I(7), I(6)>> >>] }
EmitU == Over => PrintT(<<"CASE", ToJson([s |-> script, out |-> S.res, un |-> IF CanUnroll(script) THEN Unroll(script) ELSE [none |-> TRUE]])>>)
=============================================================================
