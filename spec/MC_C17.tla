----------------------------- MODULE MC_C17 -----------------------------
(* C17: for every template in the menu, environment, and reordering of the instance that keeps *)
(* the order on every mode, Match(T, reordered instance) returns the environment; every single *)
(* structural edit (gate, mode list, per-mode order) is rejected.                              *)
EXTENDS BBMatch, TLC, Json
C(n, d) == [kind |-> "const", v |-> QNorm(n, d)]
A(p, n1, d1, n0, d0) == [kind |-> "aff", p |-> p, c1 |-> QNorm(n1, d1), c0 |-> QNorm(n0, d0)]
O(nm, modes, args) == [name |-> nm, modes |-> modes, args |-> args]
Templates == <<
  << O("Sgate", <<0>>, <<A("r", 1, 1, 0, 1), A("phi", 2, 1, -1, 1)>>), O("Dgate", <<1>>, <<A("r", -1, 1, 0, 1), C(9, 20)>>), O("Vac", <<2>>, <<>>) >>,
  << O("G", <<0>>, <<A("a", 1, 10, 1, 1)>>), O("K", <<1>>, <<A("a", 1, 5, 7, 10)>>), O("L", <<2>>, <<A("a", 1, 1, 0, 1)>>) >>,
  << O("BS", <<0, 1>>, <<A("t", 1, 1, 0, 1), C(1, 2)>>), O("R", <<0>>, <<A("t", 3, 1, 1, 4)>>), O("R", <<1>>, <<A("u", -1, 2, 0, 1)>>), O("R", <<2>>, <<A("u", 1, 1, 0, 1)>>) >>,
  << O("R", <<0>>, <<A("x", 1, 1, 0, 1)>>), O("R", <<0>>, <<A("y", 1, 1, 0, 1)>>), O("M", <<1>>, <<>>), O("BS", <<1, 2>>, <<A("x", 1, 2, 1, 1), A("y", 2, 1, 0, 1)>>) >>,
  << O("S2", <<0, 2>>, <<A("z", 1, 1, 0, 1)>>), O("MeasureX", <<1>>, <<>>), O("S2", <<2, 0>>, <<A("z", 1, 4, 0, 1)>>), O("P", <<1>>, <<A("w", 5, 1, -2, 1)>>) >>
>>
\* generated family: every sequence of GenLen operations over {R | 0, R | 1, BS | [0, 1]} with at least two two-mode operations
\* (dependencies implied by others, wires first touched in different orders after a reordering); operation i carries parameter g<i>
CONSTANT GenLen
GenMenu == << [name |-> "R", modes |-> <<0>>], [name |-> "R", modes |-> <<1>>], [name |-> "BS", modes |-> <<0, 1>>] >>
GenShapes == {f \in [1..GenLen -> 1..3] : Cardinality({i \in 1..GenLen : f[i] = 3}) >= 2}
\* parameter names that a symbolic-algebra library reads as something else when given as text (functions, constants, a keyword)
GenNames == <<"beta", "gamma", "E", "S", "lambda", "zeta", "N", "I">>
GenParam(i) == IF i <= Len(GenNames) THEN GenNames[i] ELSE "g" \o ToString(i)
GenTemplate(f) == [i \in 1..GenLen |-> O(GenMenu[f[i]].name, GenMenu[f[i]].modes, <<A(GenParam(i), i, 2, i - 3, 4)>>)]
TemplateIds == {[k |-> "hand", n |-> n, f |-> <<>>] : n \in 1..Len(Templates)} \cup {[k |-> "gen", n |-> 0, f |-> f] : f \in GenShapes}
TemplateOf(id) == IF id.k = "hand" THEN Templates[id.n] ELSE GenTemplate(id.f)
GenIdx(p) == CHOOSE i \in 1..GenLen : p = GenParam(i)
Names == {"r", "phi", "a", "t", "u", "x", "y", "z", "w"} \cup {GenParam(i) : i \in 1..GenLen}
Env1 == [p \in Names |-> CASE p = "r" -> <<3, 4>> [] p = "phi" -> <<-3, 2>> [] p = "a" -> <<5, 8>> [] p = "t" -> <<1, 4>> [] p = "u" -> <<7, 2>>
                           [] p = "x" -> <<-1, 8>> [] p = "y" -> <<9, 4>> [] p = "z" -> <<2, 1>> [] p = "w" -> <<-5, 16>>
                           [] OTHER -> <<2 * GenIdx(p) + 1, 8>>]
Env2 == [p \in Names |-> CASE p = "r" -> <<-2, 1>> [] p = "phi" -> <<1, 16>> [] p = "a" -> <<-7, 4>> [] p = "t" -> <<3, 1>> [] p = "u" -> <<1, 8>>
                           [] p = "x" -> <<11, 2>> [] p = "y" -> <<-3, 16>> [] p = "z" -> <<1, 32>> [] p = "w" -> <<4, 1>>
                           [] OTHER -> QNorm(-GenIdx(p), 4)]
Envs == <<Env1, Env2>>
VARIABLES t, e, f, done
vars == <<t, e, f, done>>
T == TemplateOf(t)
P0 == Inst(T, Envs[e])
Init == t \in TemplateIds /\ e \in (IF t.k = "hand" THEN 1..2 ELSE {1}) /\ done = FALSE /\ f \in {g \in Perms(Len(TemplateOf(t))) : IsTopo(AsGraphOps(Inst(TemplateOf(t), Envs[e])), g)}
Next == ~done /\ done' = TRUE /\ UNCHANGED <<t, e, f>>
P == Permute(P0, f)
Want == [p \in ParamsOf(T) |-> Envs[e][p]]
MatchInvertsInstantiation == Match(T, P) = Want
\* single structural edits of the (reordered) instance
Rename(k) == [P EXCEPT ![k].name = "Zgate"]
Remode(k) == [P EXCEPT ![k].modes = IF Len(@) = 1 THEN <<@[1] + 1>> ELSE <<@[2], @[1]>>]
SwapAdj(k) == [P EXCEPT ![k] = P[k + 1], ![k + 1] = P[k]]
Edits == [kind : {"rename", "remode"}, k : 1..Len(P)] \cup {x \in [kind : {"swap"}, k : 1..(Len(P) - 1)] :
             Shares(AsGraphOps(P), x.k, x.k + 1) /\ Label(P[x.k]) # Label(P[x.k + 1])}
Apply(x) == CASE x.kind = "rename" -> Rename(x.k) [] x.kind = "remode" -> Remode(x.k) [] x.kind = "swap" -> SwapAdj(x.k)
EditsRejected == \A x \in Edits : Match(T, Apply(x)) = MatchError
Emit == done => PrintT(<<"CASE", ToJson([t |-> t, tmpl |-> T, env |-> Want, perm |-> f, prog |-> P,
                                       edits |-> {[x |-> x, prog |-> Apply(x)] : x \in Edits}])>>)
=============================================================================
