---------------------------- MODULE SentGen ----------------------------
(* Generator mode of the grammar machine: breadth-first over the subset states of the       *)
(* grammar automaton; w is a shortest token string reaching the state (hidden by the VIEW). *)
(* For every state TLC prints the witness prefix, the set of tokens that keep it viable and *)
(* the set of tokens after which EOF completes a sentence: the oracle for "w t" for every   *)
(* token type t (C10 viable-prefix property, C14.4 verdicts of the generated parser).       *)
EXTENDS Integers, Sequences, FiniteSets, TLC, Json
CONSTANTS D, L, Prefixes     \* Prefixes: viable token strings that set the rule contexts the search starts in
GR == INSTANCE BBGrammar
VARIABLES g, w
vars == <<g, w>>
RECURSIVE After(_, _)
After(C, ts) == IF ts = <<>> THEN C ELSE After(GR!GStep(C, Head(ts)), Tail(ts))
VARIABLE base                \* length of the context prefix of this behaviour
Init == \E p \in Prefixes : g = After(GR!GStart, p) /\ g # {} /\ w = p /\ base = Len(p)
Next == \E t \in 1..(GR!G!NTok - 1) :              \* EOF ends a string, it is not a prefix symbol
          LET ng == GR!GStep(g, t) IN ng # {} /\ g' = ng /\ w' = Append(w, t) /\ UNCHANGED base
View == <<g, base>>
Bound == Len(w) <= base + L
Acc(t) == GR!GStep(GR!GStep(g, t), GR!G!EOFTok) # {}
Emit == PrintT(<<"SENT", ToJson([w |-> w, next |-> GR!NextToks(g), acc |-> {t \in GR!NextToks(g) \ {GR!G!EOFTok} : Acc(t)}])>>)
EmitC == Bound /\ Emit
=============================================================================
