---------------------------- MODULE BBObjects ----------------------------
(* Programs as objects on a heap of mutable cells (operation dicts, argument lists, keyword    *)
(* dicts, arrays, the variable dict), for histories of API calls (C13).                        *)
(*   heap : cell id -> content       objs : object name -> [kind, lo, hi, ops, vars]           *)
(* An object owns the cells lo..hi.  Cell contents refer to other cells by id ([k |-> "ref"]). *)
(* Actions: Dumps, Read, ToDiGraph, Match (read-only), Call (instantiate: deep copy with fresh *)
(* cells, parameters replaced), Mutate (write into ONE object's cell).                         *)
(*   Pure        : a read-only action leaves the content of every existing object unchanged     *)
(*   Independent : no cell is reachable from two different objects                             *)
(* Switches (the code as found deviates; intended = FALSE / TRUE):                              *)
(*   DiGraphFillsMissingArgs : to_DiGraph writes empty args/kwargs into argument-less operations *)
(*   CallDeepCopies          : __call__ copies every reachable cell                              *)
EXTENDS Integers, Sequences, FiniteSets
CONSTANTS DiGraphFillsMissingArgs, CallDeepCopies
VARIABLES heap, objs, next
ovars == <<heap, objs, next>>

Num(n) == [k |-> "num", n |-> n]
SymP(p) == [k |-> "sym", p |-> p]
Ref(c) == [k |-> "ref", c |-> c]

\* the cells an object reaches
OwnCells(o) == objs[o].lo..objs[o].hi
RECURSIVE Deref(_, _)
Deref(h, v) == IF v.k # "ref" THEN v
               ELSE LET c == h[v.c] IN
                    CASE c.k = "list" -> [k |-> "list", xs |-> [i \in 1..Len(c.xs) |-> Deref(h, c.xs[i])]]
                      [] c.k = "dict" -> [k |-> "dict", items |-> [i \in 1..Len(c.items) |-> [key |-> c.items[i].key, v |-> Deref(h, c.items[i].v)]]]
                      [] c.k = "arr" -> [k |-> "arr", rows |-> [r \in 1..Len(c.rows) |-> [j \in 1..Len(c.rows[r]) |-> Deref(h, c.rows[r][j])]]]
                      [] c.k = "rrt" -> [k |-> "rrt", regs |-> c.regs]          \* a measured-register transform: an object with a list of registers
                      [] c.k = "op" -> [k |-> "op", name |-> c.name, hasargs |-> c.hasargs, modes |-> c.modes,
                                        args |-> IF c.hasargs THEN Deref(h, Ref(c.args)) ELSE [k |-> "none"],
                                        kw |-> IF c.hasargs THEN Deref(h, Ref(c.kw)) ELSE [k |-> "none"]]
Content(h, ob) == [ops |-> [i \in 1..Len(ob.ops) |-> Deref(h, Ref(ob.ops[i]))], vars |-> Deref(h, Ref(ob.vars)), opts |-> Deref(h, Ref(ob.opts)),
                   params |-> ob.params]

\* references reachable from a cell (for the aliasing invariant)
RECURSIVE Reach(_, _)
Reach(h, c) == LET x == h[c]
                   kids == CASE x.k = "list" -> {x.xs[i].c : i \in {j \in 1..Len(x.xs) : x.xs[j].k = "ref"}}
                             [] x.k = "dict" -> {x.items[i].v.c : i \in {j \in 1..Len(x.items) : x.items[j].v.k = "ref"}}
                             [] x.k \in {"arr", "rrt"} -> {}
                             [] x.k = "op" -> IF x.hasargs THEN {x.args, x.kw} ELSE {}
               IN {c} \cup UNION {Reach(h, d) : d \in kids}
CellsOf(h, ob) == UNION {Reach(h, ob.ops[i]) : i \in 1..Len(ob.ops)} \cup Reach(h, ob.vars) \cup Reach(h, ob.opts)
Independent == \A a, b \in DOMAIN objs : a # b => CellsOf(heap, objs[a]) \cap CellsOf(heap, objs[b]) = {}

\* ---- instantiation: copy every cell of the template to fresh ids, replacing parameters
SubstV(v, env, shift) == CASE v.k = "sym" -> (IF v.p \in DOMAIN env THEN Num(env[v.p]) ELSE v)
                           [] v.k = "ref" -> Ref(v.c + shift)
                           [] OTHER -> v
CopyCell(c, env, shift) ==
  CASE c.k = "list" -> [c EXCEPT !.xs = [i \in 1..Len(c.xs) |-> SubstV(c.xs[i], env, shift)]]
    [] c.k = "dict" -> [c EXCEPT !.items = [i \in 1..Len(c.items) |-> [key |-> c.items[i].key, v |-> SubstV(c.items[i].v, env, shift)]]]
    [] c.k = "arr" -> [c EXCEPT !.rows = [r \in 1..Len(c.rows) |-> [j \in 1..Len(c.rows[r]) |-> SubstV(c.rows[r][j], env, shift)]]]
    [] c.k = "rrt" -> c
    [] c.k = "op" -> IF c.hasargs THEN [c EXCEPT !.args = c.args + shift, !.kw = c.kw + shift] ELSE c
Call(t, env, new) ==
  /\ t \in DOMAIN objs /\ objs[t].params # {} /\ new \notin DOMAIN objs
  /\ LET ob == objs[t] shift == next - ob.lo IN
       IF CallDeepCopies
       THEN /\ heap' = [c \in (DOMAIN heap) \cup (next..(next + ob.hi - ob.lo)) |->
                          IF c \in DOMAIN heap THEN heap[c] ELSE CopyCell(heap[c - shift], env, shift)]
            /\ objs' = [n \in (DOMAIN objs) \cup {new} |-> IF n = new THEN [kind |-> "instance", lo |-> next, hi |-> next + ob.hi - ob.lo,
                                                             ops |-> [i \in 1..Len(ob.ops) |-> ob.ops[i] + shift], vars |-> ob.vars + shift, opts |-> ob.opts + shift, params |-> {}]
                                                           ELSE objs[n]]
            /\ next' = next + (ob.hi - ob.lo) + 1
       ELSE \* deviation: the instance shares the template's cells (values written through)
            /\ heap' = [c \in DOMAIN heap |-> IF c \in OwnCells(t) THEN CopyCell(heap[c], env, 0) ELSE heap[c]]
            /\ objs' = [n \in (DOMAIN objs) \cup {new} |-> IF n = new THEN [ob EXCEPT !.kind = "instance", !.params = {}] ELSE objs[n]]
            /\ UNCHANGED next

\* ---- read-only operations
FillArgs(o) == \* as found: to_DiGraph writes op['args'] = [] and op['kwargs'] = {} into the program (two new cells)
  LET ob == objs[o]
      missing == {i \in 1..Len(ob.ops) : ~heap[ob.ops[i]].hasargs}
  IN IF missing = {} \/ ~DiGraphFillsMissingArgs THEN UNCHANGED ovars
     ELSE LET k == Cardinality(missing)
              ix == CHOOSE f \in [missing -> 0..(k - 1)] : \A a, b \in missing : a # b => f[a] # f[b]
          IN /\ heap' = [c \in (DOMAIN heap) \cup (next..(next + 2 * k - 1)) |->
                           IF c \in DOMAIN heap
                           THEN (IF \E i \in missing : ob.ops[i] = c
                                 THEN LET i == CHOOSE j \in missing : ob.ops[j] = c IN
                                      [heap[c] EXCEPT !.hasargs = TRUE, !.args = next + 2 * ix[i], !.kw = next + 2 * ix[i] + 1]
                                 ELSE heap[c])
                           ELSE IF (c - next) % 2 = 0 THEN [k |-> "list", xs |-> <<>>] ELSE [k |-> "dict", items |-> <<>>]]
             /\ next' = next + 2 * k
             /\ objs' = [objs EXCEPT ![o].hi = next + 2 * k - 1]        \* (ownership bookkeeping only)
Dumps(o) == o \in DOMAIN objs /\ UNCHANGED ovars
Read(o) == o \in DOMAIN objs /\ UNCHANGED ovars
ToDiGraph(o) == o \in DOMAIN objs /\ FillArgs(o)
Match(t, p) == t \in DOMAIN objs /\ p \in DOMAIN objs /\ objs[t].params # {} /\ objs[p].params = {}
               /\ (IF DiGraphFillsMissingArgs THEN FillArgs(t) ELSE UNCHANGED ovars)    \* (as found it fills both; one suffices for the teeth)

DictPut(items, key, v) == IF \E j \in 1..Len(items) : items[j].key = key
                          THEN [j \in 1..Len(items) |-> IF items[j].key = key THEN [key |-> key, v |-> v] ELSE items[j]]
                          ELSE Append(items, [key |-> key, v |-> v])
\* ---- mutation of ONE object: write into one of its cells
Mutate(o, kind, i) ==
  /\ o \in DOMAIN objs
  /\ LET ob == objs[o] IN
     CASE kind = "append_arg" ->
            (i \in 1..Len(ob.ops) /\ heap[ob.ops[i]].hasargs
               /\ heap' = [heap EXCEPT ![heap[ob.ops[i]].args].xs = Append(@, Num(99))] /\ UNCHANGED <<objs, next>>)
       [] kind = "set_kw" ->
            (i \in 1..Len(ob.ops) /\ heap[ob.ops[i]].hasargs
               /\ heap' = [heap EXCEPT ![heap[ob.ops[i]].kw].items = DictPut(@, "zz", Num(7))] /\ UNCHANGED <<objs, next>>)
       [] kind = "array_elem" ->       \* an element of an array variable: M (had a parameter, i = 1) or Q (never had one, i = 2)
            (i \in 1..2 /\ \E j \in 1..Len(heap[ob.vars].items) : heap[ob.vars].items[j].key = (IF i = 1 THEN "M" ELSE "Q") /\ heap[ob.vars].items[j].v.k = "ref"
               /\ heap' = [heap EXCEPT ![heap[ob.vars].items[j].v.c].rows[1][1] = Num(-5)] /\ UNCHANGED <<objs, next>>)
       [] kind = "del_var" ->          \* a variable removed from the variable dict
            (i = 1 /\ \E j \in 1..Len(heap[ob.vars].items) : heap[ob.vars].items[j].key = "v"
               /\ heap' = [heap EXCEPT ![ob.vars].items = SelectSeq(@, LAMBDA it : it.key # "v")] /\ UNCHANGED <<objs, next>>)
       [] kind = "opt_replace" ->      \* an element of the list inside a target option overwritten
            (i = 1 /\ \E j \in 1..Len(heap[ob.opts].items) : heap[ob.opts].items[j].v.k = "ref"
               /\ heap' = [heap EXCEPT ![heap[ob.opts].items[j].v.c].xs[1] = Num(-8)] /\ UNCHANGED <<objs, next>>)
       [] kind = "arg_array_elem" ->   \* an element of an array that is an operation's argument
            (i \in 1..Len(ob.ops) /\ heap[ob.ops[i]].hasargs /\ \E j \in 1..Len(heap[heap[ob.ops[i]].args].xs) :
                 heap[heap[ob.ops[i]].args].xs[j].k = "ref" /\ heap[heap[heap[ob.ops[i]].args].xs[j].c].k = "arr"
               /\ heap' = [heap EXCEPT ![heap[heap[ob.ops[i]].args].xs[j].c].rows[1][1] = Num(99)] /\ UNCHANGED <<objs, next>>)
       [] kind = "set_var" ->
            (i = 1 /\ heap' = [heap EXCEPT ![ob.vars].items = DictPut(@, "newvar", Num(1))] /\ UNCHANGED <<objs, next>>)
       [] kind = "set_option" ->
            (i = 1 /\ heap' = [heap EXCEPT ![ob.opts].items = DictPut(@, "shots", Num(99))] /\ UNCHANGED <<objs, next>>)
       [] kind = "append_option_list" ->
            (i = 1 /\ \E j \in 1..Len(heap[ob.opts].items) : heap[ob.opts].items[j].v.k = "ref"
               /\ heap' = [heap EXCEPT ![heap[ob.opts].items[j].v.c].xs = Append(@, Num(3))] /\ UNCHANGED <<objs, next>>)
       [] kind = "rrt_regref" ->      \* moving a feed-forward argument to other registers: written into the transform's register list
            (i \in 1..2 /\ \E c \in CellsOf(heap, ob) : heap[c].k = "rrt"
               /\ heap' = [heap EXCEPT ![c].regs = IF i = 1 THEN [@ EXCEPT ![1] = @ + 3] ELSE Append(@, 7)] /\ UNCHANGED <<objs, next>>)
       [] kind = "rename_op" ->
            (i = 1 /\ heap' = [heap EXCEPT ![ob.ops[1]].name = "Renamed"] /\ UNCHANGED <<objs, next>>)
=============================================================================
