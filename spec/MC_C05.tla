----------------------------- MODULE MC_C05 -----------------------------
(* C05: declarations.  Scalars of every type with compatible initialisers; arrays of every   *)
(* row structure with 1..3 rows of 1..3 entries (all ragged combinations included), element  *)
(* values that encode their position, bare template parameters at several position patterns, *)
(* shapes absent / right / wrong / 1- and 3-dimensional; readers A[k] for every k.            *)
EXTENDS MC_Load
I(n) == [t |-> "int", n |-> n]
F(n, d) == [t |-> "flt", n |-> n, d |-> d]
Var(x) == [t |-> "var", x |-> x]
NoArgs == [hasargs |-> FALSE, args |-> <<>>, kw |-> <<>>]
NoM == [name |-> ""] @@ NoArgs
Metas == {[name |-> "decl", version |-> "1.0", target |-> NoM, type |-> NoM, incs |-> <<>>, body |-> <<>>]}
Kw(k, v) == [k |-> k, v |-> v]
Stmt(op, ha, args, kw, modes, br) == [t |-> "stmt", op |-> op, hasargs |-> ha, args |-> args, kw |-> kw, modes |-> modes, br |-> br]
Bin(op, l, r) == [t |-> "bin", op |-> op, l |-> l, r |-> r]
NegE(a) == [t |-> "neg", a |-> a]
Cpx(a, b) == [t |-> "cpx", re |-> <<a, 1>>, im |-> <<b, 1>>]

\* integer literals at and beyond the 64-bit boundary (opaque for TLC; the harness writes the literal and compares the value exactly)
BigInt(a) == [t |-> "atom", k |-> "int", a |-> a]
Scalars == {
  [t |-> "var", ty |-> "int", x |-> "a", e |-> BigInt("i62")], [t |-> "var", ty |-> "int", x |-> "a", e |-> BigInt("i63")],
  [t |-> "var", ty |-> "int", x |-> "a", e |-> BigInt("i64m1")], [t |-> "var", ty |-> "int", x |-> "a", e |-> BigInt("i70")],
  [t |-> "var", ty |-> "int", x |-> "a", e |-> I(3)], [t |-> "var", ty |-> "int", x |-> "a", e |-> NegE(I(2))],
  [t |-> "var", ty |-> "int", x |-> "a", e |-> Bin("+", I(1), Bin("*", I(2), I(3)))],
  [t |-> "var", ty |-> "float", x |-> "b", e |-> F(1, 2)], [t |-> "var", ty |-> "float", x |-> "b", e |-> I(2)],
  [t |-> "var", ty |-> "float", x |-> "b", e |-> NegE(F(3, 2))], [t |-> "var", ty |-> "float", x |-> "b", e |-> Bin("/", I(3), I(4))],
  [t |-> "var", ty |-> "complex", x |-> "c", e |-> Cpx(1, 2)], [t |-> "var", ty |-> "complex", x |-> "c", e |-> I(2)],
  [t |-> "var", ty |-> "complex", x |-> "c", e |-> F(1, 2)], [t |-> "var", ty |-> "complex", x |-> "c", e |-> Bin("*", Cpx(0, 2), Cpx(1, 1))],
  [t |-> "var", ty |-> "bool", x |-> "d", e |-> [t |-> "bool", b |-> TRUE]], [t |-> "var", ty |-> "bool", x |-> "d", e |-> [t |-> "bool", b |-> FALSE]],
  [t |-> "var", ty |-> "str", x |-> "s", e |-> [t |-> "str", s |-> "abc"]],
  [t |-> "var", ty |-> "float", x |-> "pv", e |-> [t |-> "par", p |-> "al"]] }

\* element (r, c) encodes its position; the kind may be weaker than the dtype (int literal in a float array)
Elem(ty, r, c) == LET n == 3 * (r - 1) + c IN
  CASE ty = "int" -> I(n)
    [] ty = "float" -> (IF (r + c) % 2 = 0 THEN F(2 * n + 1, 2) ELSE I(n))
    [] ty = "complex" -> (IF c = 1 THEN Cpx(n, r) ELSE IF c = 2 THEN F(2 * n + 1, 4) ELSE I(n))
RowLens == UNION {[1..r -> 1..3] : r \in 1..3}
\* parameter patterns: which positions hold a bare {p}
ParAt(pat, r, c, nr, nc) == CASE pat = 0 -> FALSE
                              [] pat = 1 -> r = 1 /\ c = 1
                              [] pat = 2 -> r = nr /\ c = nc
                              [] pat = 3 -> (r = 1 /\ c = 2) \/ (r = 2 /\ c = 1)
                              [] pat = 4 -> c = 2
PNm(pat, r, c) == IF pat = 3 /\ r = 2 THEN "d" ELSE "c"
Rows(ty, lens, pat) == [r \in 1..Len(lens) |-> [c \in 1..lens[r] |->
                          IF ParAt(pat, r, c, Len(lens), lens[r]) THEN [t |-> "par", p |-> PNm(pat, r, c)] ELSE Elem(ty, r, c)]]
Shapes(lens) == { <<>>, <<Len(lens), lens[1]>>, <<Len(lens), lens[1] + 1>>, <<Len(lens) * lens[1]>>, <<Len(lens), lens[1], 1>> }
Arrays == {[t |-> "arr", ty |-> ty, x |-> "A", shape |-> sh, rows |-> Rows(ty, lens, pat)]
             : ty \in {"int", "float", "complex"}, lens \in RowLens, pat \in 0..4, sh \in {<<>>}} \cup
          {[t |-> "arr", ty |-> ty, x |-> "A", shape |-> sh, rows |-> Rows(ty, lens, pat)]
             : ty \in {"float"}, lens \in {l \in RowLens : \A i \in 1..Len(l) : l[i] = l[1]}, pat \in {0, 2}, sh \in UNION {Shapes(l) : l \in RowLens}}
\* wrong element types
BadArrays == { [t |-> "arr", ty |-> "float", x |-> "A", shape |-> <<>>, rows |-> << <<F(1, 2), Cpx(1, 1)>> >>],
               [t |-> "arr", ty |-> "int", x |-> "A", shape |-> <<>>, rows |-> << <<I(1)>>, <<Cpx(0, 1)>> >>],
               [t |-> "arr", ty |-> "float", x |-> "A", shape |-> <<2, 2>>, rows |-> << <<[t |-> "par", p |-> "w"]>> >>],   \* whole array
               [t |-> "arr", ty |-> "complex", x |-> "A", shape |-> <<1, 3>>, rows |-> << <<[t |-> "par", p |-> "w"]>> >>],
               [t |-> "arr", ty |-> "float", x |-> "A", shape |-> <<>>, rows |-> << <<[t |-> "par", p |-> "w"]>> >>] }    \* no shape: refused
Decls == Scalars \cup Arrays \cup BadArrays

RectArrays == {[t |-> "arr", ty |-> ty, x |-> "A", shape |-> <<>>, rows |-> Rows(ty, [i \in 1..r |-> c], 0)]
                 : ty \in {"int", "float", "complex"}, r \in 1..3, c \in 1..3}
Readers == {Stmt("G", TRUE, <<[t |-> "idx", x |-> "A", e |-> I(k)]>>, <<>>, <<I(0)>>, "none") : k \in 0..8}
           \cup {Stmt("H", TRUE, <<[t |-> "idx", x |-> "A", e |-> Bin("+", Var("a"), I(1))]>>, <<>>, <<I(1)>>, "none"),
                 [t |-> "var", ty |-> "int", x |-> "a", e |-> I(1)]}
ReadMenu == RectArrays \cup Readers
\* the same name declared again with other contents and another shape, with reads before and after
Redecl == { [t |-> "arr", ty |-> "int", x |-> "A", shape |-> <<>>, rows |-> << <<I(1), I(2)>>, <<I(3), I(4)>> >>],
            [t |-> "arr", ty |-> "int", x |-> "A", shape |-> <<>>, rows |-> << <<I(9), I(8), I(7), I(6), I(5)>> >>],
            [t |-> "arr", ty |-> "float", x |-> "A", shape |-> <<>>, rows |-> << <<F(1, 2)>>, <<F(3, 2)>>, <<F(5, 2)>> >>],
            Stmt("G", TRUE, <<[t |-> "idx", x |-> "A", e |-> I(1)]>>, <<>>, <<I(0)>>, "none"),
            Stmt("H", TRUE, <<[t |-> "idx", x |-> "A", e |-> I(2)]>>, <<Kw("k", [t |-> "idx", x |-> "A", e |-> I(0)])>>, <<I(1)>>, "none") }
\* arrays that consist of template parameters only (two distinct ones), some of which were already used earlier in the script
\* (in a gate argument, in a scalar declaration), with and without a declared shape; readers afterwards
PP(p) == [t |-> "par", p |-> p]
ParOnly == { Stmt("R", TRUE, <<PP("c")>>, <<>>, <<I(0)>>, "none"),
             [t |-> "var", ty |-> "float", x |-> "pv", e |-> PP("d")],
             [t |-> "arr", ty |-> "float", x |-> "A", shape |-> <<1, 2>>, rows |-> << <<PP("c"), PP("d")>> >>],
             [t |-> "arr", ty |-> "float", x |-> "A", shape |-> <<>>, rows |-> << <<PP("c"), PP("d")>> >>],
             [t |-> "arr", ty |-> "complex", x |-> "A", shape |-> <<2, 2>>, rows |-> << <<PP("c"), PP("d")>>, <<PP("d"), PP("c")>> >>],
             [t |-> "arr", ty |-> "float", x |-> "A", shape |-> <<>>, rows |-> << <<PP("d"), PP("c"), PP("d")>> >>],
             [t |-> "arr", ty |-> "float", x |-> "A", shape |-> <<>>, rows |-> << <<PP("d")>>, <<PP("e")>> >>],
             Stmt("H", TRUE, <<[t |-> "idx", x |-> "A", e |-> I(0)]>>, <<Kw("k", [t |-> "idx", x |-> "A", e |-> I(1)])>>, <<I(1)>>, "none") }
=============================================================================
