----------------------------- MODULE MC_C19 -----------------------------
EXTENDS BBHashOrder, TLC
Chars(s) == s      \* names are written as sequences of one-character strings
Scenarios == {
  [callee |-> {1, 3, 8}, call |-> <<0, 1, 2>>, ops |-> << <<8>>, <<1, 3>>, <<3>> >>,
   expr |-> << [sym |-> <<"a">>], [txt |-> <<"*">>], [sym |-> <<"a", "b">>], [txt |-> <<"+">>], [sym |-> <<"s">>], [txt |-> <<"*", "*", "2">>] >>],
  [callee |-> {0, 9}, call |-> <<5, 4>>, ops |-> << <<9, 0>>, <<0>> >>,
   expr |-> << [txt |-> <<"2", "*">>], [sym |-> <<"a", "l">>], [txt |-> <<"/">>], [sym |-> <<"a", "l", "p", "h", "a">>], [txt |-> <<"-">>], [sym |-> <<"a">>] >>],
  [callee |-> {2, 4, 6, 7}, call |-> <<3, 2, 1, 0>>, ops |-> << <<7, 2>>, <<4>>, <<6, 7>> >>,
   expr |-> << [sym |-> <<"s">>], [txt |-> <<"*">>], [sym |-> <<"s", "q">>], [txt |-> <<"+">>], [sym |-> <<"q">>] >>] }
VARIABLE sc
Init == sc \in Scenarios
Next == UNCHANGED sc
IncludeDeterministic == SiteADeterministic(sc.ops, sc.callee, sc.call)
BracesDeterministic == SiteBDeterministic(sc.expr)
BracesCorrect == SiteBCorrect(sc.expr)
TransformPaired == SiteCPaired({0, 1, 12}, [r \in {0, 1, 12} |-> r + 2], [r \in {0, 1, 12} |-> 3 * r + 1])
=============================================================================
