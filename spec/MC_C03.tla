----------------------------- MODULE MC_C03 -----------------------------
(* C03: every directly writable expression tree with at most K operator nodes over a menu of *)
(* literals, declared variables and array elements.  "Directly writable" is the property's   *)
(* binding table: brackets > unary sign > ** (right) > * / (left) > + - (left); a tree is     *)
(* writable without further brackets iff every operand binds tightly enough for its slot, so *)
(* its token string must parse back to exactly this tree.  TLC evaluates each tree with       *)
(* BBEval, checks the kind rules as invariants and prints tree + value for replay.           *)
EXTENDS BBEval, TLC, Json
CONSTANTS K, FnMenu
Lenient == FALSE       \* cfg: StrictDomains <- Lenient (values only: the harness evaluator decides the domains of inexact arguments)

Env == << [n |-> "x", v |-> Flt(3, 4)], [n |-> "n", v |-> IntV(5)], [n |-> "p0", v |-> Flt(5, 2)], [n |-> "z", v |-> Num("complex", <<1, 2>>, <<-1, 1>>)],
          [n |-> "A", v |-> Arr("int", << <<IntV(7), IntV(4)>>, <<IntV(1), IntV(6)>> >>)],
          [n |-> "B", v |-> Arr("float", << <<Flt(1, 4), Flt(5, 2), Flt(-3, 1)>> >>)] >>

Leaves == { [t |-> "int", n |-> 2], [t |-> "int", n |-> 3], [t |-> "flt", n |-> 1, d |-> 2], [t |-> "var", x |-> "p0"],      \* p0: an ordinary float (2.5) whose NAME looks like a tdm array name
           
            [t |-> "cpx", re |-> <<1, 1>>, im |-> <<2, 1>>], [t |-> "pi"], [t |-> "var", x |-> "x"], [t |-> "var", x |-> "n"],
            [t |-> "idx", x |-> "A", e |-> [t |-> "int", n |-> 1]], [t |-> "idx", x |-> "B", e |-> [t |-> "int", n |-> 2]] }

Level(e) == CASE e.t = "bin" -> (CASE e.op \in {"+", "-"} -> 1 [] e.op \in {"*", "/"} -> 2 [] e.op = "**" -> 3)
              [] e.t \in {"neg", "pos"} -> 4
              [] OTHER -> 5
Ops == {"+", "-", "*", "/", "**"}
LMin(op) == CASE op \in {"+", "-"} -> 1 [] op \in {"*", "/"} -> 2 [] op = "**" -> 4
RMin(op) == CASE op \in {"+", "-"} -> 2 [] op \in {"*", "/"} -> 3 [] op = "**" -> 3

Writable(x) == x.t # "bin" \/ (Level(x.l) >= LMin(x.op) /\ Level(x.r) >= RMin(x.op))
Bins(S, T) == {x \in {[t |-> "bin", op |-> op, l |-> l, r |-> r] : op \in Ops, l \in S, r \in T} : Writable(x)}
Unary(S) == {[t |-> "neg", a |-> a] : a \in {b \in S : Level(b) >= 4}}
            \cup {[t |-> "brk", a |-> a] : a \in {b \in S : b.t \in {"bin", "neg"}}}
            \cup {[t |-> "fn", f |-> f, a |-> a] : f \in FnMenu, a \in {b \in S : b.t # "fn"}}
\* E<k>: trees with exactly k operator nodes (constant definitions: TLC evaluates each once)
E0 == Leaves
E1 == Unary(E0) \cup {[t |-> "pos", a |-> a] : a \in Leaves} \cup Bins(E0, E0)
E2 == Unary(E1) \cup Bins(E0, E1) \cup Bins(E1, E0)
E3 == Unary(E2) \cup Bins(E0, E2) \cup Bins(E1, E1) \cup Bins(E2, E0)
All == E0 \cup (IF K >= 1 THEN E1 ELSE {}) \cup (IF K >= 2 THEN E2 ELSE {}) \cup (IF K >= 3 THEN E3 ELSE {})

\* second environment: the arrays were indexed and then declared again with other contents and shapes
Env2 == << [n |-> "x", v |-> Flt(3, 4)], [n |-> "n", v |-> IntV(5)], [n |-> "p0", v |-> Flt(5, 2)], [n |-> "z", v |-> Num("complex", <<1, 2>>, <<-1, 1>>)],
           [n |-> "A", v |-> Arr("int", << <<IntV(9), IntV(8), IntV(3), IntV(6)>> >>)],
           [n |-> "B", v |-> Arr("float", << <<Flt(1, 2)>>, <<Flt(5, 4)>>, <<Flt(4, 1)>> >>)] >>
\* third environment: the arrays were indexed and then re-bound through array-valued expression variables
\* ("int A = A*A-A", "float B = B*B": element by element)
Env3 == << [n |-> "x", v |-> Flt(3, 4)], [n |-> "n", v |-> IntV(5)], [n |-> "p0", v |-> Flt(5, 2)], [n |-> "z", v |-> Num("complex", <<1, 2>>, <<-1, 1>>)],
           [n |-> "A", v |-> Arith("-", Arith("*", Get(Env, "A"), Get(Env, "A")), Get(Env, "A"))],
           [n |-> "B", v |-> Arith("*", Get(Env, "B"), Get(Env, "B"))] >>
RECURSIVE HasIdx(_)
HasIdx(x) == CASE x.t = "idx" -> TRUE
               [] x.t = "bin" -> HasIdx(x.l) \/ HasIdx(x.r)
               [] x.t \in {"neg", "pos", "brk", "fn"} -> HasIdx(x.a)
               [] OTHER -> FALSE
VARIABLES e, envsel, done
Init == e \in All /\ done = FALSE /\ envsel \in (IF HasIdx(e) THEN (IF e \in E0 \cup E1 THEN {1, 2, 3} ELSE {1, 2}) ELSE {1})
Next == ~done /\ done' = TRUE /\ UNCHANGED <<e, envsel>>
TheEnv == CASE envsel = 1 -> Env [] envsel = 2 -> Env2 [] envsel = 3 -> Env3
Val == Eval(e, TheEnv, {})

\* ---- the property's kind rules, as invariants over every enumerated tree
RECURSIVE HasKind(_, _)
HasKind(x, ks) == CASE x.t = "bin" -> HasKind(x.l, ks) \/ HasKind(x.r, ks)
                    [] x.t \in {"neg", "pos", "brk"} -> HasKind(x.a, ks)
                    [] x.t = "fn" -> "float" \in ks \/ HasKind(x.a, ks)
                    [] x.t = "idx" -> Eval(x, TheEnv, {}).k \in ks
                    [] x.t = "var" -> Get(TheEnv, x.x).k \in ks
                    [] x.t = "pi" -> "float" \in ks
                    [] OTHER -> (CASE x.t = "int" -> "int" [] x.t = "flt" -> "float" [] x.t = "cpx" -> "complex") \in ks
RECURSIVE HasDiv(_)
HasDiv(x) == CASE x.t = "bin" -> x.op = "/" \/ HasDiv(x.l) \/ HasDiv(x.r)
               [] x.t \in {"neg", "pos", "brk", "fn"} -> HasDiv(x.a)
               [] OTHER -> FALSE
KindRule == (done /\ IsNum(Val)) =>
              /\ (HasKind(e, {"complex"}) => Val.k = "complex")
              /\ (~HasKind(e, {"complex"}) /\ (HasKind(e, {"float"}) \/ HasDiv(e)) => Val.k = "float")
              /\ (~HasKind(e, {"complex", "float"}) /\ ~HasDiv(e) => Val.k = "int")
BracketsTransparent == (done /\ e.t = "brk") => Val = Eval(e.a, TheEnv, {})
NegIsZeroMinus == (done /\ e.t = "neg" /\ IsExact(Val)) =>
                    LET z == Arith("-", IntV(0), Eval(e.a, TheEnv, {})) IN z.re = Val.re /\ z.im = Val.im
Emit == done => PrintT(<<"CASE", ToJson([e |-> e, v |-> Val, env |-> envsel])>>)
=============================================================================
