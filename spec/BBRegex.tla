---------------------------- MODULE BBRegex ----------------------------
(* Regular expressions over an abstract alphabet, as tagged records:                        *)
(*   [t |-> "eps"], [t |-> "tok", n], [t |-> "cs", s], [t |-> "ref", n],                    *)
(*   [t |-> "seq", a, b], [t |-> "alt", a, b], [t |-> "star", a]      (+ and ? are derived) *)
(* Body is the table of rule bodies that "ref" leaves point into.  Two uses:                *)
(*   lexer : leaves "cs" (sets of character classes), refs = fragments, inlined (LFInline)   *)
(*   parser: leaves "tok" (token types), refs = rule invocations, kept as leaves (LFFrame)   *)
(* LF is Antimirov's linear form: the set of <<leaf, residual>> pairs; the residuals of a   *)
(* regular expression are finitely many, which is what makes the subset automata finite.    *)
EXTENDS Integers, Sequences, FiniteSets
CONSTANT Body

Eps == [t |-> "eps"]

RECURSIVE Nullable(_)
Nullable(r) == CASE r.t = "eps"  -> TRUE
                 [] r.t = "tok"  -> FALSE
                 [] r.t = "cs"   -> FALSE
                 [] r.t = "ref"  -> Nullable(Body[r.n])
                 [] r.t = "seq"  -> Nullable(r.a) /\ Nullable(r.b)
                 [] r.t = "alt"  -> Nullable(r.a) \/ Nullable(r.b)
                 [] r.t = "star" -> TRUE

MkSeq(x, y) == IF x.t = "eps" THEN y ELSE IF y.t = "eps" THEN x ELSE [t |-> "seq", a |-> x, b |-> y]

\* rule references are leaves (the caller pushes a frame for them)
RECURSIVE LFFrame(_)
LFFrame(r) == CASE r.t = "eps" -> {}
                [] r.t \in {"tok", "ref", "cs"} -> {<<r, Eps>>}
                [] r.t = "alt"  -> LFFrame(r.a) \cup LFFrame(r.b)
                [] r.t = "seq"  -> {<<p[1], MkSeq(p[2], r.b)>> : p \in LFFrame(r.a)}
                                   \cup (IF Nullable(r.a) THEN LFFrame(r.b) ELSE {})
                [] r.t = "star" -> {<<p[1], MkSeq(p[2], r)>> : p \in LFFrame(r.a)}

\* rule references are inlined (lexer fragments; no recursion among them)
RECURSIVE LFInline(_)
LFInline(r) == CASE r.t = "eps" -> {}
                 [] r.t = "cs"   -> {<<r.s, Eps>>}
                 [] r.t = "ref"  -> LFInline(Body[r.n])
                 [] r.t = "alt"  -> LFInline(r.a) \cup LFInline(r.b)
                 [] r.t = "seq"  -> {<<p[1], MkSeq(p[2], r.b)>> : p \in LFInline(r.a)}
                                    \cup (IF Nullable(r.a) THEN LFInline(r.b) ELSE {})
                 [] r.t = "star" -> {<<p[1], MkSeq(p[2], r)>> : p \in LFInline(r.a)}
=============================================================================
