-------------------------- MODULE ParseOracle --------------------------
(* Batch oracle: for each token-type string (EOF appended by the harness) the grammar       *)
(* machine's verdict: -1 = sentence, otherwise the 0-based index of the first token whose   *)
(* prefix is not viable (FirstBad).  One step per token, one verdict line per case.         *)
EXTENDS Integers, Sequences, FiniteSets, TLC, Json, IOUtils
CONSTANT D
GR == INSTANCE BBGrammar
Cases == JsonDeserialize(IOEnv.CASE_FILE)
VARIABLES k, i, C, verdict
vars == <<k, i, C, verdict>>
None == -2
Init == k \in 1..Len(Cases) /\ i = 1 /\ C = GR!GStart /\ verdict = None
Consume == verdict = None /\ i <= Len(Cases[k])
           /\ LET n == GR!GStep(C, Cases[k][i]) IN
                IF n = {} THEN verdict' = i - 1 /\ UNCHANGED <<k, i, C>>
                ELSE C' = n /\ i' = i + 1 /\ UNCHANGED <<k, verdict>>
Finish == verdict = None /\ i > Len(Cases[k])
          /\ verdict' = (IF GR!GAccept(C) THEN -1 ELSE Len(Cases[k])) /\ UNCHANGED <<k, i, C>>
Next == Consume \/ Finish
Verdict == verdict # None => PrintT(<<"FB", k, verdict>>)
=============================================================================
