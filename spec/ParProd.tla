---------------------------- MODULE ParProd ----------------------------
(* C14.3: the shipped parser ATN and the parser rules of blackbird.g4 accept the same token  *)
(* strings.  Product of the two subset automata over the token types (EOF included);        *)
(* complete for all token strings of any length whose parse needs at most D+1 nested rule   *)
(* invocations (both sides cut lazily at depth D).                                          *)
EXTENDS Integers, Sequences, FiniteSets, TLC
CONSTANT D
A == INSTANCE ParATNData
ATN == INSTANCE BBATN WITH EpsSucc <- A!EpsSucc, RuleSucc <- A!RuleSucc, AtomSucc <- A!AtomSucc,
                           StopRule <- A!StopRule
GR == INSTANCE BBGrammar
VARIABLES a, g, w            \* w: a shortest token string leading here (hidden by the VIEW)
vars == <<a, g, w>>

Init == a = ATN!Start(A!StartState) /\ g = GR!GStart /\ w = <<>>
Next == \E t \in 1..GR!G!NTok :
          LET na == ATN!Step(a, t) ng == GR!GStep(g, t)
          IN (na # {} \/ ng # {}) /\ a' = na /\ g' = ng /\ w' = Append(w, t)

View == <<a, g>>
SameViability == (a = {}) <=> (g = {})
SameAcceptance == (ATN!Accepting(a) # {}) <=> GR!GAccept(g)
=============================================================================
