----------------------------- MODULE MC_C16 -----------------------------
(* C16: every program of up to NOps operations over NW wires (1..3 modes per operation, an     *)
(* optional measured-register dependency in positional or keyword position, argument-less     *)
(* operations).  TLC proves on the model that the graph is forward, that reachability is       *)
(* exactly "a chain of operations successively sharing a wire", and that every topological     *)
(* order keeps the program's order on every wire; each program is printed with its reach set. *)
(* The harness converts each program under several object histories (converted before, an      *)
(* instance of a converted template, operation list reversed in place after a conversion):     *)
(* the graph is a function of the operations the program holds at the time of the call.        *)
EXTENDS BBGraph, TLC, Json
CONSTANTS NOps, NW
W == 0..(NW - 1)
ModeSeqs == {<<a>> : a \in W} \cup {s \in W \X W : s[1] # s[2]} \cup (IF NW >= 3 THEN {<<0, 2, 1>>, <<1, 0, 2>>} ELSE {})
OpMenu == {[name |-> "G", modes |-> m, regs |-> {}, args |-> "none"] : m \in ModeSeqs}
          \cup {[name |-> "G", modes |-> m, regs |-> {}, args |-> "plain"] : m \in {s \in ModeSeqs : Len(s) = 1}}
          \cup {[name |-> "T", modes |-> m, regs |-> {}, args |-> "par"] : m \in {s \in ModeSeqs : Len(s) = 1}}     \* a template parameter in the argument
          \cup {[name |-> "R", modes |-> m, regs |-> {r}, args |-> a] : m \in {s \in ModeSeqs : Len(s) <= 2}, r \in W, a \in {"pos", "kw"}}
OpMenuOK == {o \in OpMenu : o.regs \cap {o.modes[i] : i \in 1..Len(o.modes)} = {}}
VARIABLES ops, done
Init == ops = <<>> /\ done = FALSE
Add == ~done /\ Len(ops) < NOps /\ \E o \in OpMenuOK : ops' = Append(ops, o) /\ UNCHANGED done
Stop == ~done /\ Len(ops) >= 1 /\ done' = TRUE /\ UNCHANGED ops
Next == Add \/ Stop
EdgesForward == \A e \in Edges(ops) : e[1] < e[2]
ReachIffChain == \A i, j \in Idx(ops) : i # j => (<<i, j>> \in Reach(ops) <=> (i < j /\ ChainFrom(ops, i, j)))
TopoKeepsWireOrder == done => \A f \in Perms(Len(ops)) : IsTopo(ops, f) =>
                         \A i, j \in Idx(ops) : (i < j /\ Shares(ops, i, j)) => PosOf(f, i) < PosOf(f, j)
Emit == done => PrintT(<<"CASE", ToJson([ops |-> ops, reach |-> Reach(ops), edges |-> Edges(ops)])>>)
=============================================================================
