----------------------------- MODULE BBGraph -----------------------------
(* The dependency graph of a program (utils.to_DiGraph).  An operation occupies the wires of   *)
(* its modes and of the measured registers its arguments mention; the graph has one node per   *)
(* operation and an edge between operations that are consecutive on some wire.                 *)
EXTENDS Integers, Sequences, FiniteSets
\* abstract operation: [name, modes: Seq(Int), regs: SUBSET Int, ...]
Wires(op) == {op.modes[i] : i \in 1..Len(op.modes)} \cup op.regs
Idx(ops) == 1..Len(ops)
Shares(ops, i, j) == Wires(ops[i]) \cap Wires(ops[j]) # {}
Edges(ops) == {e \in Idx(ops) \X Idx(ops) : e[1] < e[2] /\ \E w \in Wires(ops[e[1]]) \cap Wires(ops[e[2]]) :
                   \A k \in (e[1] + 1)..(e[2] - 1) : w \notin Wires(ops[k])}
RECURSIVE TCn(_, _, _)
TCn(R, n, k) == IF k = 0 THEN R ELSE TCn(R \cup {<<a, c>> \in (1..n) \X (1..n) : \E b \in 1..n : <<a, b>> \in R /\ <<b, c>> \in R}, n, k - 1)
Reach(ops) == TCn(Edges(ops), Len(ops), Len(ops))
\* declarative reachability: an increasing chain of operations that successively share a wire
RECURSIVE ChainFrom(_, _, _)
ChainFrom(ops, i, j) == i = j \/ \E k \in (i + 1)..j : Shares(ops, i, k) /\ ChainFrom(ops, k, j)
Perms(n) == {f \in [1..n -> 1..n] : \A a, b \in 1..n : a # b => f[a] # f[b]}
\* f[pos] = operation at position pos; a topological order of the graph
IsTopo(ops, f) == \A e \in Edges(ops) : (CHOOSE p \in 1..Len(ops) : f[p] = e[1]) < (CHOOSE p \in 1..Len(ops) : f[p] = e[2])
PosOf(f, i) == CHOOSE p \in DOMAIN f : f[p] = i
=============================================================================
