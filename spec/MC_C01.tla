----------------------------- MODULE MC_C01 -----------------------------
(* C01 / C15: serialise-then-load round trip on every program the builder model loads.        *)
EXTENDS MC_Load, BBSerialize
I(n) == [t |-> "int", n |-> n]
F(n, d) == [t |-> "flt", n |-> n, d |-> d]
Var(x) == [t |-> "var", x |-> x]
Par(p) == [t |-> "par", p |-> p]
Reg(n) == [t |-> "reg", n |-> n]
NoArgs == [hasargs |-> FALSE, args |-> <<>>, kw |-> <<>>]
NoM == [name |-> ""] @@ NoArgs
Kw(k, v) == [k |-> k, v |-> v]
Stmt(op, ha, args, kw, modes, br) == [t |-> "stmt", op |-> op, hasargs |-> ha, args |-> args, kw |-> kw, modes |-> modes, br |-> br]
Bin(op, l, r) == [t |-> "bin", op |-> op, l |-> l, r |-> r]
NegE(a) == [t |-> "neg", a |-> a]
LstE(xs) == [t |-> "lst", xs |-> xs]
SStr(s) == [t |-> "str", s |-> s]
BoolE(b) == [t |-> "bool", b |-> b]
Cpx(a, b) == [t |-> "cpx", re |-> <<a, 1>>, im |-> <<b, 1>>]
Meta(nm, tg, ty) == [name |-> nm, version |-> "1.0", target |-> tg, type |-> ty, incs |-> <<>>, body |-> <<>>]
Metas == { Meta("rt", NoM, NoM),
           \* a tdm program: its serialisation declares the variables; ordinary arrays passed to operations are still hoisted
           Meta("rt3", NoM, [name |-> "tdm", hasargs |-> TRUE, args |-> <<>>, kw |-> <<Kw("temporal_modes", I(2))>>]),
           Meta("rt2", [name |-> "dev", hasargs |-> TRUE, args |-> <<>>,
                        kw |-> <<Kw("shots", I(10)), Kw("flag", BoolE(TRUE)), Kw("l", LstE(<<I(1), F(5, 2), Bin("+", I(1), I(1)), Bin("/", I(1), I(4))>>)), Kw("s", SStr("x")), Kw("z", Cpx(1, -2))>>],
                       [name |-> "foo", hasargs |-> TRUE, args |-> <<>>, kw |-> <<Kw("copies", I(3)), Kw("ls", LstE(<<SStr("a"), BoolE(FALSE)>>))>>]) }
\* parameter names overlap each other and function names on purpose
\* declared before every script, so that each statement below is meaningful on its own
Pre == <<
  [t |-> "var", ty |-> "float", x |-> "v", e |-> F(3, 2)],
  [t |-> "var", ty |-> "int", x |-> "n", e |-> I(2)],
  [t |-> "arr", ty |-> "float", x |-> "M", shape |-> <<>>, rows |-> << <<F(1, 2), NegE(F(3, 2))>>, <<I(2), F(1, 4)>> >>],
  [t |-> "arr", ty |-> "complex", x |-> "Cx", shape |-> <<>>, rows |-> << <<Cpx(1, -2), F(1, 2), I(3)>> >>],
  [t |-> "arr", ty |-> "int", x |-> "Z", shape |-> <<>>, rows |-> << <<I(1)>>, <<NegE(I(4))>> >>],
  [t |-> "arr", ty |-> "int", x |-> "Ra", shape |-> <<>>, rows |-> << <<I(1), I(2), I(3), I(4)>> >>],
  [t |-> "arr", ty |-> "int", x |-> "Rb", shape |-> <<>>, rows |-> << <<I(1), I(2)>>, <<I(3), I(4)>> >> ],
  [t |-> "arr", ty |-> "float", x |-> "Rf", shape |-> <<>>, rows |-> << <<I(1), I(2), I(3), I(4)>> >>],            \* the entries of Ra as floats
  [t |-> "arr", ty |-> "complex", x |-> "Rc", shape |-> <<>>, rows |-> << <<I(1), I(2), I(3), I(4)>> >>] >>        \* ... and as complex numbers
Items == {
  Stmt("Two", TRUE, <<Var("Ra"), Var("Rb")>>, <<Kw("again", Var("Ra"))>>, <<I(0), I(1)>>, "sq"),
  Stmt("Eq", TRUE, <<Var("Ra"), Var("Rf")>>, <<Kw("c", Var("Rc")), Kw("again", Var("Rf"))>>, <<I(1), I(2)>>, "sq"),
  Stmt("Vac", FALSE, <<>>, <<>>, <<I(0)>>, "none"),
  Stmt("K", TRUE, <<>>, <<>>, <<I(1)>>, "none"),
  Stmt("S", TRUE, <<F(1, 2), NegE(F(1, 4)), I(3), Cpx(1, 2), Cpx(0, -1)>>, <<>>, <<I(0)>>, "none"),
  Stmt("B", TRUE, <<Var("v"), Bin("/", I(1), I(3))>>, <<Kw("phi", Bin("*", Var("v"), I(2))), Kw("on", BoolE(TRUE)), Kw("s", SStr("txt"))>>, <<I(0), Bin("+", Var("n"), I(1))>>, "sq"),
  Stmt("L", TRUE, <<>>, <<Kw("l", LstE(<<I(1), Bin("+", I(1), I(1)), F(5, 2), SStr("s"), BoolE(FALSE)>>)), Kw("e", LstE(<<>>)),
                            Kw("fl", LstE(<<Bin("*", Var("v"), I(2)), Bin("/", I(1), I(4)), [t |-> "idx", x |-> "M", e |-> I(1)], Bin("*", Cpx(0, 1), I(2)), I(7)>>))>>, <<I(2)>>, "none"),
  Stmt("A", TRUE, <<Var("M")>>, <<Kw("c", Var("Cx")), Kw("z", Var("Z"))>>, <<I(0), I(1)>>, "par"),
  Stmt("T", TRUE, <<Par("a"), Bin("/", Bin("*", I(2), Par("ab")), I(3))>>, <<>>, <<I(0)>>, "none"),
  Stmt("T2", TRUE, <<Bin("*", [t |-> "pi"], Par("alpha")), Bin("**", Par("s"), I(2))>>, <<Kw("k", Par("al")), Kw("m", Bin("-", I(1), Par("sq")))>>, <<I(1)>>, "none"),
  Stmt("Ov", TRUE, <<Bin("+", Bin("*", Par("a"), Par("ab")), Par("al")), Bin("/", Par("alpha"), Par("al"))>>, <<Kw("w", Bin("-", Bin("*", I(2), Par("s")), Par("sq")))>>, <<I(0)>>, "none"),
  Stmt("Np", TRUE, <<NegE([t |-> "brk", a |-> Bin("**", Par("a"), I(2))]), Bin("*", NegE(I(2)), Bin("**", Par("a"), I(3)))>>,
                   <<Kw("m", Bin("-", I(0), Bin("**", Par("s"), I(3)))), Kw("r", NegE([t |-> "brk", a |-> Bin("**", Reg(0), I(2))]))>>, <<I(1)>>, "none"),
  \* measured registers (one- and two-digit) inside a list-valued keyword, next to a parameter element; strings that look like other things
  Stmt("Lr", TRUE, <<SStr("1.5"), SStr("p0")>>, <<Kw("k", LstE(<<Reg(10), F(1, 2), Bin("*", I(2), Reg(1)), Par("a"), SStr("True"), SStr("{a}")>>)), Kw("z", Cpx(2, 0))>>, <<I(2)>>, "none"),
  \* list elements that mix template parameters and measured registers (several of each in one element)
  Stmt("Lm", TRUE, <<I(1)>>, <<Kw("select", LstE(<<Bin("+", Bin("*", Par("a"), Reg(0)), Par("ab")), Bin("-", Par("s"), Reg(1)), Bin("*", Bin("*", Reg(10), Par("al")), Reg(2))>>))>>, <<I(2), I(3)>>, "sq"),
  \* complex coefficients of a parameter and of a measured register
  Stmt("Ci", TRUE, <<Bin("*", Par("s"), Cpx(0, 1)), Bin("+", Bin("*", Cpx(1, 2), Par("a")), I(1))>>, <<Kw("z", Bin("*", Cpx(0, 2), Reg(1)))>>, <<I(0)>>, "none"),
  Stmt("Rg", TRUE, <<Reg(0), Bin("*", I(2), Reg(1))>>, <<Kw("phi", Bin("+", Bin("*", F(1, 2), Reg(10)), Reg(1)))>>, <<I(2)>>, "none"),
  Stmt("MeasureX", FALSE, <<>>, <<>>, <<I(0)>>, "none"),
  [t |-> "for", ty |-> "int", x |-> "i", hdr |-> [t |-> "range", a |-> 0, b |-> 2, c |-> 0, hasc |-> FALSE],
     body |-> <<Stmt("Lp", TRUE, <<Var("i"), Bin("*", Par("a"), Var("i"))>>, <<>>, <<Var("i"), Bin("+", Var("i"), I(1))>>, "none")>>]
}
Done == Over /\ S.res.k = "ok"
P0 == S.res.prog
Gen1 == Load(Serialize(P0))
InScope == AllParamsUsed(P0) /\ ~HasSymArray(P0)
RoundTrip == (Done /\ InScope) => (Gen1.k = "ok" /\ SameProgram(Gen1.prog, P0))
\* (a tdm program's serialisation declares all its variables, so the hoisted arrays A0, A1, ... of by-value array arguments
\*  join them in the next generation: stationary only up to those)
Stationary == (Done /\ InScope /\ Gen1.k = "ok" /\ (P0.type.name = "tdm" => ArrSlots(P0) = <<>>)) => Serialize(Gen1.prog) = Serialize(P0)
SecondGeneration == (Done /\ InScope /\ Gen1.k = "ok") => LET g2 == Load(Serialize(Gen1.prog)) IN g2.k = "ok" /\ SameProgram(g2.prog, P0)
EmitRT == Over => PrintT(<<"CASE", ToJson([s |-> script, out |-> S.res, inscope |-> IF Done THEN InScope ELSE FALSE])>>)
=============================================================================
