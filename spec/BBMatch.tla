----------------------------- MODULE BBMatch -----------------------------
(* Template matching (utils.match_template), declaratively.  A template operation is           *)
(* [name, modes, args] with args constant [kind |-> "const", v] or affine in one parameter      *)
(* [kind |-> "aff", p, c1, c0] (c1 # 0); a program operation has rational arguments.            *)
(* T matches P iff they have the same operations up to a reordering that keeps the order on     *)
(* every mode: on every wire the sequences of (label, occurrence) agree.  The matched pairs     *)
(* then determine every parameter by solving c1*p + c0 = y; the solutions must agree.           *)
EXTENDS BBGraph, BBValues
AsGraphOps(ops) == [i \in 1..Len(ops) |-> [name |-> ops[i].name, modes |-> ops[i].modes, regs |-> {}]]
Label(op) == <<op.name, op.modes>>
Occ(ops, i) == Cardinality({k \in 1..i : Label(ops[k]) = Label(ops[i])})
OnWire(ops, w) == SelectSeq([i \in 1..Len(ops) |-> i], LAMBDA i : w \in Wires([modes |-> ops[i].modes, regs |-> {}]))
WireSeq(ops, w) == LET ix == OnWire(ops, w) IN [k \in 1..Len(ix) |-> <<Label(ops[ix[k]]), Occ(ops, ix[k])>>]
AllWires(ops) == UNION {{ops[i].modes[j] : j \in 1..Len(ops[i].modes)} : i \in 1..Len(ops)}
Structure(T, P) == /\ Len(T) = Len(P)
                   /\ AllWires(T) = AllWires(P)
                   /\ \A w \in AllWires(T) : WireSeq(T, w) = WireSeq(P, w)
                   /\ \A i \in 1..Len(T) : Len(T[i].args) = Len(P[CHOOSE j \in 1..Len(P) : Label(P[j]) = Label(T[i]) /\ Occ(P, j) = Occ(T, i)].args)
Partner(T, P, i) == CHOOSE j \in 1..Len(P) : Label(P[j]) = Label(T[i]) /\ Occ(P, j) = Occ(T, i)
Solutions(T, P, p) == {QMul(QSub(P[Partner(T, P, i)].args[j], T[i].args[j].c0), QInv(T[i].args[j].c1))
                         : <<i, j>> \in {x \in (1..Len(T)) \X (1..3) : x[2] <= Len(T[x[1]].args) /\ T[x[1]].args[x[2]].kind = "aff" /\ T[x[1]].args[x[2]].p = p}}
ParamsOf(T) == {T[i].args[j].p : <<i, j>> \in {x \in (1..Len(T)) \X (1..3) : x[2] <= Len(T[x[1]].args) /\ T[x[1]].args[x[2]].kind = "aff"}}
MatchError == [error |-> TRUE]
Match(T, P) == IF ~Structure(T, P) THEN MatchError
               ELSE IF \E p \in ParamsOf(T) : Cardinality(Solutions(T, P, p)) # 1 THEN MatchError
               ELSE [p \in ParamsOf(T) |-> CHOOSE v \in Solutions(T, P, p) : TRUE]
InstArg(a, env) == IF a.kind = "const" THEN a.v ELSE QAdd(QMul(a.c1, env[a.p]), a.c0)
Inst(T, env) == [i \in 1..Len(T) |-> [name |-> T[i].name, modes |-> T[i].modes, args |-> [j \in 1..Len(T[i].args) |-> InstArg(T[i].args[j], env)]]]
Permute(P, f) == [pos \in 1..Len(P) |-> P[f[pos]]]
=============================================================================
