----------------------------- MODULE MC_C07 -----------------------------
(* C07: includes.  A small file tree (same directory, sub-directory, sibling directory), main  *)
(* scripts that include by relative and absolute paths, nested and repeated include lines,    *)
(* and call the included programs one or several times.  Checked in every final state:        *)
(*   Load(main, fs) = Load(Inline(main)):  the call is replaced by the callee's operations,   *)
(*   its modes taken in increasing order renamed to the call's modes, parameters bound;       *)
(*   ill-formed calls (mode count, keywords) are refused.                                     *)
EXTENDS MC_Load, BBSerialize
I(n) == [t |-> "int", n |-> n]
FL(n, d) == [t |-> "flt", n |-> n, d |-> d]
Var(x) == [t |-> "var", x |-> x]
Par(p) == [t |-> "par", p |-> p]
NoArgs == [hasargs |-> FALSE, args |-> <<>>, kw |-> <<>>]
NoM == [name |-> ""] @@ NoArgs
Kw(k, v) == [k |-> k, v |-> v]
Stmt(op, ha, args, kw, modes, br) == [t |-> "stmt", op |-> op, hasargs |-> ha, args |-> args, kw |-> kw, modes |-> modes, br |-> br]
Bin(op, l, r) == [t |-> "bin", op |-> op, l |-> l, r |-> r]
Sc(nm, incs, body) == [name |-> nm, version |-> "1.0", target |-> NoM, type |-> NoM, incs |-> incs, body |-> body]
Rel(dirs, f) == [abs |-> FALSE, dirs |-> dirs, file |-> f]
AbsP(dirs, f) == [abs |-> TRUE, dirs |-> dirs, file |-> f]
W == <<"ROOT", "w">>                      \* the directory of the main script ("ROOT" is replaced by the scratch root)
Call(nm, modes) == Stmt(nm, FALSE, <<>>, <<>>, modes, "sq")
CallK(nm, kw, modes) == Stmt(nm, TRUE, <<>>, kw, modes, "sq")

SubF == Sc("sub", <<>>, <<Stmt("A", TRUE, <<FL(1, 2)>>, <<>>, <<I(8)>>, "none"), Stmt("B", FALSE, <<>>, <<>>, <<I(1), I(3)>>, "sq"),
                          Stmt("C", TRUE, <<>>, <<Kw("k", I(2))>>, <<I(3)>>, "none"), Stmt("A", TRUE, <<FL(3, 2)>>, <<>>, <<I(1)>>, "none")>>)
TSubF == Sc("tsub", <<>>, <<Stmt("R", TRUE, <<Par("phi")>>, <<>>, <<I(1)>>, "none"),
                            Stmt("S", TRUE, <<Bin("*", Par("phi"), I(2)), Par("th")>>, <<Kw("g", Par("th"))>>, <<I(0), I(1)>>, "sq"),
                            Stmt("T2", TRUE, <<Bin("+", Bin("*", I(2), Par("phi")), Par("th"))>>, <<>>, <<I(0)>>, "none"),
                            Stmt("Mx", FALSE, <<>>, <<>>, <<I(0)>>, "none"), Stmt("Vc", FALSE, <<>>, <<>>, <<I(1), I(0)>>, "sq")>>)     \* argument-less operations inside a template
\* a template whose parameters occur bare and inside expressions, in positional and keyword position (for calls with measured registers)
RSubF == Sc("rsub", <<>>, <<Stmt("Zr", TRUE, <<FL(1, 10)>>, <<Kw("eps", Par("u"))>>, <<I(0)>>, "none"), Stmt("Rr", TRUE, <<Par("u")>>, <<>>, <<I(1)>>, "none"),
                            Stmt("Dr", TRUE, <<Bin("*", I(2), Par("g"))>>, <<Kw("h", Bin("+", Par("g"), Par("u")))>>, <<I(1)>>, "none")>>)
\* a template whose parameters are named like Python keywords and meet an ordinary one inside ONE argument (values must be bound by name)
KSubF == Sc("ksub", <<>>, <<Stmt("Rk", TRUE, <<Bin("/", Bin("*", I(2), Par("d")), Par("lambda"))>>, <<Kw("w", Bin("-", Par("lambda"), Bin("*", Par("if"), Par("d"))))>>, <<I(0)>>, "none")>>)
\* a directory of the main script's directory that is a symbolic link to a directory elsewhere: w/vendor -> ext/vendor.  The library in it
\* includes "../common.xbb": that is ext/common.xbb (program CommonExt), NOT the file w/common.xbb next to the link.
LinkTarget7(d) == IF d = W \o <<"vendor">> THEN <<"ROOT", "ext", "vendor">> ELSE d
Links == << [from |-> W \o <<"vendor">>, to |-> <<"ROOT", "ext", "vendor">>] >>
VLibF == Sc("vlib", <<Rel(<<"..">>, "common.xbb")>>, <<Stmt("Hv", FALSE, <<>>, <<>>, <<I(0)>>, "none"), Call("CommonExt", <<I(2)>>)>>)
CommonExtF == Sc("CommonExt", <<>>, <<Stmt("Ce", TRUE, <<I(5)>>, <<>>, <<I(7)>>, "none")>>)
\* two different files that are both written as "common.xbb" in the include line of their including file
CommonTopF == Sc("Common", <<>>, <<Stmt("Ct", FALSE, <<>>, <<>>, <<I(0), I(1)>>, "sq"), Stmt("Cu", TRUE, <<FL(1, 2)>>, <<>>, <<I(1)>>, "none")>>)
CommonLibF == Sc("CommonLib", <<>>, <<Stmt("Cl", TRUE, <<I(7)>>, <<>>, <<I(4)>>, "none")>>)
ChipF == Sc("chip", <<Rel(<<>>, "common.xbb")>>, <<Stmt("Hc", FALSE, <<>>, <<>>, <<I(0)>>, "none"), Call("CommonLib", <<I(2)>>)>>)
CommonLib2F == Sc("Common", <<>>, <<Stmt("Cl2", TRUE, <<I(9)>>, <<>>, <<I(5)>>, "none")>>)       \* same program NAME as the top-level one
Chip2F == Sc("chip2", <<Rel(<<>>, "common.xbb")>>, <<Call("Common", <<I(3)>>), Stmt("Hd", FALSE, <<>>, <<>>, <<I(1)>>, "none")>>)
InnerF == Sc("inner", <<>>, <<Stmt("D", FALSE, <<>>, <<>>, <<I(9)>>, "none"), Stmt("E", TRUE, <<FL(3, 2)>>, <<>>, <<I(0), I(9)>>, "sq")>>)
OuterF == Sc("outer", <<Rel(<<"sub">>, "inner.xbb")>>, <<Call("inner", <<I(4), I(2)>>), Stmt("Fg", FALSE, <<>>, <<>>, <<I(2)>>, "none"), Call("inner", <<I(2), I(4)>>)>>)
UtilF == Sc("util", <<Rel(<<"..", "w", "sub">>, "inner.xbb")>>, <<Stmt("U", TRUE, <<I(1)>>, <<>>, <<I(0)>>, "none"), Call("inner", <<I(0), I(5)>>)>>)
FS7(f) == CASE f = [dirs |-> W, file |-> "sub.xbb"] -> SubF
            [] f = [dirs |-> W, file |-> "tsub.xbb"] -> TSubF
            [] f = [dirs |-> W, file |-> "rsub.xbb"] -> RSubF
            [] f = [dirs |-> W, file |-> "ksub.xbb"] -> KSubF
            [] f = [dirs |-> <<"ROOT", "ext", "vendor">>, file |-> "vlib.xbb"] -> VLibF
            [] f = [dirs |-> <<"ROOT", "ext">>, file |-> "common.xbb"] -> CommonExtF
            [] f = [dirs |-> W \o <<"sub">>, file |-> "inner.xbb"] -> InnerF
            [] f = [dirs |-> W, file |-> "outer.xbb"] -> OuterF
            [] f = [dirs |-> <<"ROOT", "lib">>, file |-> "util.xbb"] -> UtilF
            [] f = [dirs |-> W, file |-> "common.xbb"] -> CommonTopF
            [] f = [dirs |-> W \o <<"lib">>, file |-> "common.xbb"] -> CommonLibF
            [] f = [dirs |-> W \o <<"lib">>, file |-> "chip.xbb"] -> ChipF
            [] f = [dirs |-> W \o <<"lib2">>, file |-> "common.xbb"] -> CommonLib2F
            [] f = [dirs |-> W \o <<"lib2">>, file |-> "chip2.xbb"] -> Chip2F
            [] OTHER -> NoFile
Files == << [path |-> [dirs |-> <<"ROOT", "ext", "vendor">>, file |-> "vlib.xbb"], s |-> VLibF], [path |-> [dirs |-> <<"ROOT", "ext">>, file |-> "common.xbb"], s |-> CommonExtF],
            [path |-> [dirs |-> W, file |-> "rsub.xbb"], s |-> RSubF], [path |-> [dirs |-> W, file |-> "ksub.xbb"], s |-> KSubF], [path |-> [dirs |-> W, file |-> "sub.xbb"], s |-> SubF], [path |-> [dirs |-> W, file |-> "tsub.xbb"], s |-> TSubF],
            [path |-> [dirs |-> W \o <<"sub">>, file |-> "inner.xbb"], s |-> InnerF], [path |-> [dirs |-> W, file |-> "outer.xbb"], s |-> OuterF],
            [path |-> [dirs |-> <<"ROOT", "lib">>, file |-> "util.xbb"], s |-> UtilF],
            [path |-> [dirs |-> W, file |-> "common.xbb"], s |-> CommonTopF], [path |-> [dirs |-> W \o <<"lib">>, file |-> "common.xbb"], s |-> CommonLibF],
            [path |-> [dirs |-> W \o <<"lib">>, file |-> "chip.xbb"], s |-> ChipF], [path |-> [dirs |-> W \o <<"lib2">>, file |-> "common.xbb"], s |-> CommonLib2F],
            [path |-> [dirs |-> W \o <<"lib2">>, file |-> "chip2.xbb"], s |-> Chip2F] >>

Mains == { Sc("m1", <<Rel(<<>>, "sub.xbb")>>, <<>>),
           Sc("m2", <<Rel(<<>>, "sub.xbb"), Rel(<<>>, "tsub.xbb"), Rel(<<>>, "ksub.xbb")>>, <<>>),
           Sc("m3", <<Rel(<<>>, "outer.xbb")>>, <<>>),                                  \* nested: inner becomes visible too
           Sc("m4", <<Rel(<<>>, "sub.xbb"), Rel(<<>>, "tsub.xbb"), Rel(<<>>, "sub.xbb")>>, <<>>),   \* repeated include line
           Sc("m5", <<AbsP(W, "tsub.xbb"), Rel(<<"..", "lib">>, "util.xbb")>>, <<>>),     \* absolute path, sibling directory, nested via ..
           Sc("m6", <<Rel(<<"sub">>, "inner.xbb"), Rel(<<>>, "outer.xbb")>>, <<>>),
           Sc("m7", <<Rel(<<"lib">>, "chip.xbb"), Rel(<<>>, "common.xbb")>>, <<>>),      \* nested "common.xbb" and an own "common.xbb": different files
           Sc("m8", <<Rel(<<"lib2">>, "chip2.xbb"), Rel(<<>>, "common.xbb")>>, <<>>),    \* ... that also declare the same program name
           Sc("m9", <<Rel(<<>>, "common.xbb"), Rel(<<"lib2">>, "chip2.xbb")>>, <<>>),
           Sc("m10", <<Rel(<<>>, "rsub.xbb"), Rel(<<>>, "tsub.xbb")>>, <<>>),
           Sc("m11", <<Rel(<<"vendor">>, "vlib.xbb"), Rel(<<>>, "common.xbb")>>, <<>>) }     \* through the symbolic link; and the decoy next to it   \* the opposite order
\* quick tier: pairs of items under the layouts that exercise distinct mechanisms, single items under all of them
MainsQuick == {m \in Mains : m.name \in {"m2", "m5", "m8", "m10", "m11"}}
GoodItems == { Call("sub", <<I(0), I(1), I(2)>>), Call("sub", <<I(5), I(4), I(7)>>),
           Call("Common", <<I(6), I(7)>>), Call("chip", <<I(1), I(0), I(3)>>), Call("chip2", <<I(2), I(4)>>), Call("CommonLib", <<I(5)>>),
           \* template parameters of the including script handed down, also under swapped names
           CallK("tsub", <<Kw("phi", Par("th")), Kw("th", Par("phi"))>>, <<I(2), I(3)>>),
           CallK("tsub", <<Kw("phi", Bin("+", Par("th"), I(1))), Kw("th", FL(1, 2))>>, <<I(4), I(1)>>),
           CallK("tsub", <<Kw("phi", FL(1, 4)), Kw("th", I(1))>>, <<I(2), I(3)>>),
           CallK("tsub", <<Kw("th", FL(1, 2)), Kw("phi", Bin("*", Var("v"), I(3)))>>, <<I(1), I(0)>>),
           \* the same template applied with values that differ only slightly (small negative integers, an integer and the equal float)
           CallK("tsub", <<Kw("phi", [t |-> "neg", a |-> I(1)]), Kw("th", I(1))>>, <<I(0), I(2)>>),
           CallK("tsub", <<Kw("phi", [t |-> "neg", a |-> I(2)]), Kw("th", I(1))>>, <<I(2), I(0)>>),
           CallK("tsub", <<Kw("phi", [t |-> "neg", a |-> I(2)]), Kw("th", FL(1, 1))>>, <<I(1), I(3)>>),
           Call("vlib", <<I(3), I(1)>>), Call("CommonExt", <<I(6)>>),
           \* keyword-like parameter names, the keywords written in two different orders
           CallK("ksub", <<Kw("d", FL(3, 10)), Kw("lambda", FL(3, 2)), Kw("if", I(3))>>, <<I(1)>>),
           CallK("ksub", <<Kw("if", FL(1, 2)), Kw("lambda", I(2)), Kw("d", FL(1, 4))>>, <<I(3)>>),
           \* measured registers handed to a template: bare, inside an expression, next to a number
           CallK("rsub", <<Kw("u", [t |-> "reg", n |-> 3]), Kw("g", FL(1, 2))>>, <<I(4), I(7)>>),
           CallK("rsub", <<Kw("u", Bin("*", I(2), [t |-> "reg", n |-> 3])), Kw("g", [t |-> "reg", n |-> 1])>>, <<I(5), I(6)>>),
           Call("outer", <<I(6), I(7)>>), Call("inner", <<I(1), I(0)>>), Call("util", <<I(3), I(2)>>),
           Stmt("G", TRUE, <<I(1)>>, <<>>, <<I(0)>>, "none"), [t |-> "var", ty |-> "float", x |-> "v", e |-> FL(1, 2)],
           \* calls inside a loop body, with keyword values and modes that depend on the loop variable
           [t |-> "for", ty |-> "int", x |-> "k", hdr |-> [t |-> "range", a |-> 1, b |-> 4, c |-> 0, hasc |-> FALSE],
              body |-> <<CallK("tsub", <<Kw("phi", Var("k")), Kw("th", Bin("/", Var("k"), I(8)))>>, <<Var("k"), I(0)>>)>>],
           [t |-> "for", ty |-> "int", x |-> "j", hdr |-> [t |-> "vals", br |-> "sq", xs |-> <<I(5), I(2)>>],
              body |-> <<Call("sub", <<Var("j"), I(0), I(1)>>), Stmt("Gj", TRUE, <<Var("j")>>, <<>>, <<Var("j")>>, "none")>>] }
BadCalls == {
           Call("sub", <<I(0), I(1), I(2), I(2)>>), CallK("tsub", <<Kw("phi", I(1)), Kw("th", I(2))>>, <<I(0), I(1), I(1)>>), Call("Common", <<I(0), I(1), I(1)>>),
           Call("sub", <<I(0), I(1)>>), CallK("sub", <<Kw("a", I(1))>>, <<I(0), I(1), I(2)>>), CallK("sub", <<>>, <<I(0), I(1), I(2)>>),
           Call("tsub", <<I(0), I(1)>>), CallK("tsub", <<Kw("phi", I(1))>>, <<I(0), I(1)>>),
           CallK("tsub", <<Kw("phi", I(1)), Kw("th", I(2)), Kw("x", I(3))>>, <<I(0), I(1)>>), CallK("tsub", <<Kw("phi", I(1)), Kw("th", I(2))>>, <<I(0)>>) }
Items == GoodItems \cup BadCalls
FaultMenu == BadCalls \cup {Call("sub", <<I(0), I(1), I(2)>>), [t |-> "var", ty |-> "float", x |-> "v", e |-> FL(1, 2)]}

\* ---- declarative side: the registry of visible programs and textual inlining
RECURSIVE Registry(_, _, _)
Registry(s, base, depth) ==
  IF depth = 0 THEN <<>>
  ELSE LET RECURSIVE F(_, _) F(i, acc) ==
             IF i > Len(s.incs) THEN acc
             ELSE LET file == Resolve(base, s.incs[i]) callee == FS7(file) IN
                  IF callee = NoFile THEN F(i + 1, acc)
                  ELSE F(i + 1, IncMerge(IncPut(acc, [name |-> callee.name, file |-> file, prog |-> LoadFrom(Fresh, callee, file.dirs).res.prog]),
                                         Registry(callee, file.dirs, depth - 1)))
       IN F(1, <<>>)
RegHas(reg, nm) == \E i \in 1..Len(reg) : reg[i].name = nm
RegGet(reg, nm) == reg[CHOOSE i \in 1..Len(reg) : reg[i].name = nm].prog
OpStmt(op) == [t |-> "stmt", op |-> op.op, hasargs |-> op.hasargs, args |-> [j \in 1..Len(op.args) |-> ValExpr(op.args[j])],
               kw |-> [j \in 1..Len(op.kw) |-> [k |-> op.kw[j].k, v |-> ValExpr(op.kw[j].v)]],
               modes |-> [j \in 1..Len(op.modes) |-> [t |-> "val", v |-> IntV(op.modes[j])]], br |-> "sq"]
WellFormedCall(st, bb) == /\ Len(st.modes) = Cardinality(bb.modes)
                          /\ (st.hasargs <=> IsTemplate(bb))
                          /\ (st.hasargs => {st.kw[i].k : i \in 1..Len(st.kw)} = ParamSet(bb) /\ Len(st.args) = 0)
InlineCall(st, bb, V) ==
  LET env == [i \in 1..Len(st.kw) |-> [n |-> st.kw[i].k, v |-> Eval(st.kw[i].v, V, {})]]
      inst == IF st.hasargs THEN Instantiate(bb, env).prog ELSE bb
      from == SortSet(inst.modes)
      to(m) == st.modes[CHOOSE i \in 1..Len(from) : from[i] = m]
  IN [i \in 1..Len(inst.ops) |-> [OpStmt(inst.ops[i]) EXCEPT !.modes = [j \in 1..Len(inst.ops[i].modes) |-> to(inst.ops[i].modes[j])]]]
AllCallsWellFormed(s, reg) == \A i \in 1..Len(s.body) : (s.body[i].t = "stmt" /\ RegHas(reg, s.body[i].op)) => WellFormedCall(s.body[i], RegGet(reg, s.body[i].op))
Inline(s, reg) == [s EXCEPT !.incs = <<>>,
                           !.body = LET RECURSIVE F(_) F(i) == IF i > Len(s.body) THEN <<>>
                                          ELSE (IF s.body[i].t = "stmt" /\ RegHas(reg, s.body[i].op)
                                                   /\ (\A j \in 1..Len(s.body[i].kw) : ~IsBad(KwVal(s.body[i].kw[j].v, EnvAt(s.body, i - 1), {})))
                                                THEN InlineCall(s.body[i], RegGet(reg, s.body[i].op), EnvAt(s.body, i - 1))
                                                ELSE <<s.body[i]>>) \o F(i + 1)
                                    IN F(1)]
\* (the registry depends on the include lines only: computed once per main script, as a constant table)
RegTable == [m \in Mains |-> Registry(m, W, 3)]
Reg0 == RegTable[[script EXCEPT !.body = <<>>]]
\* loops are unrolled textually first, so that calls in loop bodies are inlined once per iteration
Flat == IF CanUnroll(script) THEN Unroll(script) ELSE script
IncludeIsInlining == (Over /\ CanUnroll(script) /\ AllCallsWellFormed(Flat, Reg0)) =>
                        LET b == Load(Inline(Flat, Reg0)) IN
                          /\ S.res.k = b.k
                          /\ (S.res.k = "ok" => SameOps(S.res.prog, b.prog) /\ S.res.prog.modes = b.prog.modes)
IllFormedCallRefused == (Over /\ CanUnroll(script) /\ ~AllCallsWellFormed(Flat, Reg0)) => S.res.k = "raise"
\* the registry the machine built is the declarative one (names visible, nested includes merged)
RegistryAgrees == (S.res = None /\ Len(S.st) = 1 /\ Top(S).pc <= Len(Top(S).plan) /\ Instr(S).a = "enterProgram")     \* all include lines done
                    => {Top(S).incs[i].name : i \in 1..Len(Top(S).incs)} = {Reg0[i].name : i \in 1..Len(Reg0)}
EmitI == Over => PrintT(<<"CASE", ToJson([s |-> script, out |-> S.res,
                    inl |-> IF CanUnroll(script) /\ AllCallsWellFormed(Flat, Reg0) THEN Inline(Flat, Reg0) ELSE [none |-> TRUE]])>>)
\* The same two statements evaluated together with the emission, so that the unrolled script, the well-formedness of its calls and
\* the inlined script are computed once per final state; the verdicts are printed with the case (the harness requires both TRUE).
EmitAll == Over => LET cu == CanUnroll(script)
                       flat == IF cu THEN Unroll(script) ELSE script
                       wf == cu /\ AllCallsWellFormed(flat, Reg0)
                       inl == IF wf THEN Inline(flat, Reg0) ELSE [none |-> TRUE]
                       b == IF wf THEN Load(inl) ELSE [k |-> "none"]
                       inlining == wf => (S.res.k = b.k /\ (S.res.k = "ok" => SameOps(S.res.prog, b.prog) /\ S.res.prog.modes = b.prog.modes))
                       refused == (cu /\ ~wf) => S.res.k = "raise"
                   IN PrintT(<<"CASE", ToJson([s |-> script, out |-> S.res, inl |-> inl, inlining |-> inlining, refused |-> refused])>>)
EmitPlain == Over => PrintT(<<"CASE", ToJson([s |-> script, out |-> S.res])>>)       \* the single prediction only (C19)
EmitFiles == PrintT(<<"FILES", ToJson(Files)>>) /\ PrintT(<<"LINKS", ToJson(Links)>>)
ASSUME EmitFiles
=============================================================================
