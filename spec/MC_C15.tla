----------------------------- MODULE MC_C15 -----------------------------
(* C15: tdm programs.  p-arrays (int/float/complex, 1..3 entries) used in positional and      *)
(* keyword position next to ordinary variables, template parameters and loops; the same       *)
(* items under a non-tdm type as control.                                                     *)
EXTENDS MC_C01
TdmMetas == { Meta("tdm1", NoM, [name |-> "tdm", hasargs |-> TRUE, args |-> <<>>, kw |-> <<Kw("temporal_modes", I(3)), Kw("copies", I(1))>>]),
              Meta("tdm0", [name |-> "TD2"] @@ NoArgs, [name |-> "tdm"] @@ NoArgs),
              Meta("ctrl", NoM, [name |-> "other"] @@ NoArgs),
              Meta("ctrl2", NoM, [name |-> "TDM"] @@ NoArgs) }             \* only the exact type name "tdm" makes p-arrays special
PA(nm, ty, row) == [t |-> "arr", ty |-> ty, x |-> nm, shape |-> <<>>, rows |-> <<row>>]
\* declared before every script: p-arrays with one- and several-digit indices, a scalar and an ordinary array
TdmPre == << PA("p0", "float", <<F(1, 2), NegE(F(3, 2)), I(2)>>), PA("p1", "int", <<I(1), I(0)>>), PA("p2", "complex", <<Cpx(1, -2)>>),
             PA("p10", "float", <<F(1, 4), F(3, 4)>>), PA("p123", "int", <<I(7)>>),
             [t |-> "var", ty |-> "float", x |-> "v", e |-> F(3, 2)],
             [t |-> "var", ty |-> "str", x |-> "lbl", e |-> SStr("ab c")], [t |-> "var", ty |-> "bool", x |-> "flag", e |-> BoolE(TRUE)],
             [t |-> "var", ty |-> "complex", x |-> "zc", e |-> Cpx(1, -2)], [t |-> "var", ty |-> "int", x |-> "nn", e |-> I(3)],
             PA("W", "float", <<F(1, 4), F(3, 4)>>), PA("p1x", "int", <<I(7)>>),      \* ordinary arrays with exactly the data of p10 / p123 (passed by value)
             [t |-> "arr", ty |-> "float", x |-> "M", shape |-> <<>>, rows |-> << <<F(1, 2), I(2)>>, <<F(5, 2), NegE(I(1))>> >>] >>
TdmItems == {
  PA("p7", "float", <<F(1, 8)>>),
  [t |-> "arr", ty |-> "float", x |-> "p8", shape |-> <<1, 2>>, rows |-> << <<Par("phis")>> >>],
  Stmt("Wp", TRUE, <<Var("p8")>>, <<Kw("w", Var("p8"))>>, <<I(0)>>, "none"),
  Stmt("Xgate", TRUE, <<Var("p123"), Var("p7")>>, <<Kw("q", Var("p10"))>>, <<I(2)>>, "none"),
  Stmt("Sgate", TRUE, <<Var("p0"), F(1, 2)>>, <<>>, <<I(0)>>, "none"),
  Stmt("BSgate", TRUE, <<Var("p1")>>, <<Kw("phi", Var("p0"))>>, <<I(0), I(1)>>, "sq"),
  Stmt("Rgate", TRUE, <<Var("p2")>>, <<Kw("th", Var("p10")), Kw("w", Var("v"))>>, <<I(1)>>, "none"),
  Stmt("MeasureHomodyne", TRUE, <<>>, <<Kw("phi", Var("p1"))>>, <<I(0)>>, "none"),
  Stmt("D", TRUE, <<Var("v"), [t |-> "idx", x |-> "M", e |-> I(2)]>>, <<>>, <<I(1)>>, "none"),
  Stmt("Kv", TRUE, <<Var("W"), Var("p10")>>, <<Kw("m", Var("p1x"))>>, <<I(1)>>, "none"),
  \* string arguments: one that looks like a p-name but names no variable, the empty string, one that equals a declared p-name
  Stmt("Str", TRUE, <<SStr("p55"), SStr("")>>, <<Kw("s", SStr("p0"))>>, <<I(1)>>, "none"),
  Stmt("T", TRUE, <<Par("a")>>, <<Kw("k", Var("p0"))>>, <<I(0)>>, "none"),
  [t |-> "for", ty |-> "int", x |-> "i", hdr |-> [t |-> "range", a |-> 0, b |-> 2, c |-> 0, hasc |-> FALSE],
     body |-> <<Stmt("Lp", TRUE, <<Var("p0"), Var("i")>>, <<>>, <<Var("i")>>, "none")>>]
}
IsTdm == script.type.name = "tdm"
PDecl(i) == script.body[i].t = "arr" /\ IsPType(script.body[i].x)
\* a p-array used as an argument is delivered as its name; its data stay available under that name
ByName == (Done /\ IsTdm) => \A i \in 1..Len(P0.ops) : \A j \in 1..Len(P0.ops[i].args) :
              P0.ops[i].args[j].k = "pname" => (Has(P0.vars, P0.ops[i].args[j].s) /\ Get(P0.vars, P0.ops[i].args[j].s).k = "arr")
NoArrayByValueInTdm == (Done /\ IsTdm) => \A i \in 1..Len(P0.ops) :
              (\A j \in 1..Len(P0.ops[i].args) : P0.ops[i].args[j].k = "arr" => \E n \in 1..Len(script.body) : script.body[n].t = "arr" /\ ~IsPType(script.body[n].x))
ByValueOutsideTdm == (Done /\ ~IsTdm) => \A i \in 1..Len(P0.ops) : \A j \in 1..Len(P0.ops[i].args) : P0.ops[i].args[j].k # "pname"
PNamesNotParams == Done => \A p \in ParamSet(P0) : ~IsPType(p)
TemplateOnlyWithBraces == Done => (IsTemplate(P0) <=> WrittenParams(script) # {})
DataKept == (Done /\ IsTdm) => \A i \in 1..Len(script.body) : PDecl(i) => Has(P0.vars, script.body[i].x)
\* every variable survives with its value (the reloaded program additionally holds the hoisted by-value arrays A0, A1, ...)
RoundTripVars == (Done /\ IsTdm /\ InScope /\ Gen1.k = "ok") =>
                   /\ \A i \in 1..Len(P0.vars) : Has(Gen1.prog.vars, P0.vars[i].n) /\ SameVal(Get(Gen1.prog.vars, P0.vars[i].n), P0.vars[i].v)
                   /\ \A i \in 1..Len(Gen1.prog.vars) : Has(P0.vars, Gen1.prog.vars[i].n) \/ \E n \in 1..Len(ArrSlots(P0)) : Gen1.prog.vars[i].n = ArrName(n)
=============================================================================
