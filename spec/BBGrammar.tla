--------------------------- MODULE BBGrammar ---------------------------
(* The parser grammar of blackbird.g4 as a pushdown machine over token types.               *)
(* G4Data (generated from the .g4 of the working tree) supplies Body: one BBRegex per rule,  *)
(* rule 1 = start.  A configuration is a stack of residuals, one frame per rule invocation. *)
(* Exp(c, t): all configurations after consuming token t.  A set of configurations is the   *)
(* subset-automaton state reached by a token string; the string is viable iff it is         *)
(* non-empty, and a sentence iff some configuration is all-nullable.                        *)
EXTENDS Integers, Sequences, FiniteSets
CONSTANT D                         \* frames deeper than D may exist but may not consume (lazy cut)
G == INSTANCE G4Data
R == INSTANCE BBRegex WITH Body <- G!Body

RECURSIVE Exp(_, _)
Exp(c, t) ==
  LET top == Head(c) rest == Tail(c) IN
    (UNION { IF p[1].t = "tok"
             THEN (IF p[1].n = t THEN {<<p[2]>> \o rest} ELSE {})
             ELSE (IF Len(c) <= D THEN Exp(<<G!Body[p[1].n], p[2]>> \o rest, t) ELSE {})
           : p \in R!LFFrame(top)})
    \cup (IF R!Nullable(top) /\ rest # <<>> THEN Exp(rest, t) ELSE {})

GStart == {<<G!Body[1]>>}
GStep(C, t) == UNION {Exp(c, t) : c \in C}
GAccept(C) == \E c \in C : \A i \in 1..Len(c) : R!Nullable(c[i])
Viable(C) == C # {}
NextToks(C) == {t \in 1..G!NTok : GStep(C, t) # {}}
=============================================================================
