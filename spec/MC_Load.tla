----------------------------- MODULE MC_Load -----------------------------
(* Script-builder model around the listener machine: the script is chosen item by item WHILE *)
(* the machine walks it, so TLC's breadth-first search enumerates every script over the item  *)
(* menu up to N body items (sharing prefixes) and -simulate produces long random scripts.     *)
(* Checked in every state where a load is over:  the operational outcome equals the           *)
(* declarative one (C02), equals the load of the unrolled script (C06), and (action property) *)
(* operations are only ever appended.  Each finished load is printed for replay.              *)
EXTENDS BBDenote, Json
CONSTANTS N, MetaMenu, ItemMenu, Prelude, BaseDir, MinLen      \* MinLen > 0 only in simulation runs (longer random scripts)

VARIABLES S, script, closed
vars == <<S, script, closed>>

NoFS(p) == NoFile
EmptyPrelude == <<>>
RootDir == <<>>
Open(m) == LET s == [m EXCEPT !.body = Prelude] IN
           [Begin(Fresh, s, BaseDir) EXCEPT !.st[1].plan = SubSeq(Plan(s), 1, Len(Plan(s)) - 1)]
Init == \E m \in MetaMenu : script = [m EXCEPT !.body = Prelude] /\ S = Open(m) /\ closed = FALSE

AtEnd == S.res = None /\ Len(S.st) = 1 /\ Top(S).pc > Len(Top(S).plan)
Walk == S.res = None /\ ~AtEnd /\ S' = Step(S) /\ UNCHANGED <<script, closed>>
AddItem == AtEnd /\ ~closed /\ Len(script.body) < N + Len(Prelude)
           /\ \E it \in ItemMenu :
                /\ script' = [script EXCEPT !.body = Append(@, it)]
                /\ S' = SetTop(S, [Top(S) EXCEPT !.plan = @ \o ItemPlan(it), !.script.body = Append(@, it)])
           /\ UNCHANGED closed
Close == AtEnd /\ ~closed /\ Len(script.body) >= MinLen + Len(Prelude) /\ closed' = TRUE
         /\ S' = SetTop(S, [Top(S) EXCEPT !.plan = Append(@, [a |-> "exitProgram"])]) /\ UNCHANGED script
Next == Walk \/ AddItem \/ Close

Over == S.res # None
OperationalIsDenotational == Over => SameOutcome(S.res, Denote(script))
LoopIsUnrolling == (Over /\ CanUnroll(script)) => SameOutcome(S.res, Load(Unroll(script)))
ModesAreUnion == (Over /\ S.res.k = "ok") =>
                   S.res.prog.modes = UNION {{S.res.prog.ops[i].modes[j] : j \in 1..Len(S.res.prog.ops[i].modes)} : i \in 1..Len(S.res.prog.ops)}
LoopVarGone == (Over /\ S.res.k = "ok") =>
                 \A i \in 1..Len(script.body) : script.body[i].t = "for" => ~Has(S.res.prog.vars, script.body[i].x)
TablesEmptyAfterSuccess == (Over /\ S.res.k = "ok") => S.V = <<>> /\ S.P = <<>>
IsPrefixSeq(a, b) == Len(a) <= Len(b) /\ SubSeq(b, 1, Len(a)) = a
OpsAppendOnly == [][(S.res = None /\ S'.res = None /\ Len(S.st) = 1 /\ Len(S'.st) = 1) => IsPrefixSeq(Top(S).prog.ops, Top(S').prog.ops)]_vars
DeferredNotExecuted == [][(S.res = None /\ S'.res = None /\ Len(S.st) = 1 /\ Top(S).pc <= Len(Top(S).plan) /\ Instr(S).a = "deferred")
                            => Top(S').prog.ops = Top(S).prog.ops]_vars
Emit == Over => PrintT(<<"CASE", ToJson([s |-> script, out |-> S.res])>>)
=============================================================================
