----------------------------- MODULE BBEval -----------------------------
(* Evaluation of Blackbird expressions (mirrors auxiliary._expression/_number/_func).        *)
(* Expression syntax trees (what the grammar's alternative order produces):                  *)
(*   [t |-> "int", n]  [t |-> "flt", n, d]  [t |-> "cpx", re, im]  [t |-> "pi"]             *)
(*   [t |-> "var", x]  [t |-> "reg", n]  [t |-> "idx", x, e]  [t |-> "par", p]              *)
(*   [t |-> "brk", a]  [t |-> "neg", a]  [t |-> "pos", a]  [t |-> "bin", op, l, r]          *)
(*   [t |-> "fn", f, a]       non-numeric literals: [t |-> "str", s]  [t |-> "bool", b]      *)
(* V is the variable table (sequence of [n, v]); PN the set of registered p-array names.     *)
EXTENDS BBValues

Has(V, n) == \E i \in 1..Len(V) : V[i].n = n
Get(V, n) == V[CHOOSE i \in 1..Len(V) : V[i].n = n].v
Put(V, n, v) == IF Has(V, n) THEN [i \in 1..Len(V) |-> IF V[i].n = n THEN [n |-> n, v |-> v] ELSE V[i]]
                ELSE Append(V, [n |-> n, v |-> v])
Del(V, n) == SelectSeq(V, LAMBDA e : e.n # n)
Names(V) == [i \in 1..Len(V) |-> V[i].n]


Neg(v) == CASE IsBad(v) -> v
            [] v.k = "sym" -> Sym(TNeg(v.term))
            [] IsNum(v) -> IF v.x THEN Num(v.k, QNeg(v.re), QNeg(v.im)) ELSE Inx(v.k, TNeg(v.term))
            [] OTHER -> Unspec

TooBig(k) == [k |-> "big", kind |-> k]     \* the exact result leaves TLC's integer range: kept as a term instead
ExactArith(op, a, b) ==
  LET k == MaxKind(a.k, b.k) IN
  CASE op = "+" -> LET c == CAdd(a, b) IN Num(k, c.re, c.im)
    [] op = "-" -> LET c == CSub(a, b) IN Num(k, c.re, c.im)
    [] op = "*" -> LET c == CMul(a, b) IN Num(k, c.re, c.im)
    [] op = "/" -> IF CIsZero(b) THEN Unspec
                   ELSE LET c == CMul(a, CInv(b)) IN Num(IF k = "int" THEN "float" ELSE k, c.re, c.im)
    [] op = "**" ->
         IF b.im[1] = 0 /\ QIsInt(b.re) /\ (Abs(b.re[1]) <= 40 \/ b.k = "int")
         THEN IF Abs(b.re[1]) > 40 THEN Unspec
              ELSE IF b.re[1] >= 0
              THEN LET p == CPow(a, b.re[1]) IN IF p.ok THEN Num(k, p.re, p.im) ELSE TooBig(k)
              ELSE IF k = "int" \/ CIsZero(a) THEN Unspec          \* int ** negative int, 0 ** negative
                   ELSE LET p == CPow(CInv(a), -b.re[1]) IN IF p.ok THEN Num(k, p.re, p.im) ELSE TooBig(k)
         ELSE IF a.im[1] = 0 /\ a.re[1] > 0 /\ b.im[1] = 0
              THEN Inx(IF k = "int" THEN "float" ELSE k, TBin("**", TNum(a), TNum(b)))   \* positive base, real exponent
              ELSE Unspec


Arith(op, a, b) ==
  CASE IsRaise(a) -> a
    [] IsRaise(b) -> b
    [] a.k = "unspec" \/ b.k = "unspec" -> Unspec
    [] a.k = "sym" \/ b.k = "sym" ->
         IF op = "/" /\ IsExact(b) /\ CIsZero(b) THEN Unspec                    \* division by zero: not finite
         ELSE IF (a.k = "sym" \/ IsNum(a)) /\ (b.k = "sym" \/ IsNum(b)) THEN Sym(TBin(op, TermOf(a), TermOf(b))) ELSE Unspec
    [] IsNum(a) /\ IsNum(b) ->
         IF a.x /\ b.x
         THEN IF VBig(a) \/ VBig(b) THEN Unspec
              ELSE LET r == ExactArith(op, a, b) IN
                   IF r.k = "big" THEN Inx(r.kind, TBin(op, TNum(a), TNum(b)))
                   ELSE IF IsExact(r) /\ VBig(r) THEN Inx(r.k, TBin(op, TNum(a), TNum(b)))
                   ELSE r
         ELSE LET k == MaxKind(a.k, b.k) IN
              IF op = "**" THEN Unspec       \* powers of inexact numbers: sign/domain not decidable here
              ELSE Inx(IF k = "int" /\ op = "/" THEN "float" ELSE k, TBin(op, TermOf(a), TermOf(b)))
    [] OTHER -> Unspec

Fns == {"sin", "cos", "tan", "arcsin", "arccos", "arctan", "sinh", "cosh", "tanh",
        "arcsinh", "arccosh", "arctanh", "sqrt", "log", "exp"}
\* real domain of each function on exact real arguments (outside: not compared)
InDomain(f, v) ==
  /\ IsExact(v) /\ v.k # "complex" /\ ~VBig(v)
  /\ CASE f \in {"arcsin", "arccos"} -> ~QLt(v.re, <<-1, 1>>) /\ ~QLt(QOne, v.re)
       [] f = "arctanh" -> QLt(<<-1, 1>>, v.re) /\ QLt(v.re, QOne)
       [] f = "arccosh" -> ~QLt(v.re, QOne)
       [] f = "sqrt" -> ~QLt(v.re, QZero)
       [] f = "log" -> QLt(QZero, v.re)
       [] f = "tan" -> TRUE
       [] f \in {"exp", "sinh", "cosh"} -> QLt(v.re, <<20, 1>>) /\ QLt(<<-20, 1>>, v.re)
       [] OTHER -> TRUE
Apply(f, v) == CASE IsBad(v) -> v
                 [] InDomain(f, v) -> Inx("float", TFn(f, TNum(v)))
                 [] IsNum(v) /\ ~v.x /\ v.k = "float" -> Inx("float", TFn(f, v.term))    \* the harness evaluator rejects arguments outside the domain
                 [] OTHER -> Unspec

Flatten(rows) == LET RECURSIVE F(_) F(i) == IF i > Len(rows) THEN <<>> ELSE rows[i] \o F(i + 1) IN F(1)

RECURSIVE Eval(_, _, _)
Eval(e, V, PN) ==
  CASE e.t = "int" -> IntV(e.n)
    [] e.t = "flt" -> Flt(e.n, e.d)
    [] e.t = "cpx" -> Num("complex", QNorm(e.re[1], e.re[2]), QNorm(e.im[1], e.im[2]))
    [] e.t = "pi"  -> Inx("float", TPi)
    [] e.t = "atom" -> Inx(e.k, [t |-> "atom", a |-> e.a])   \* a literal too long for TLC's integers: opaque, valued by the harness
    [] e.t = "val" -> e.v                      \* a literal denoting exactly this value (serialised numbers)
    [] e.t = "str" -> Str(e.s)
    [] e.t = "bool" -> Bool(e.b)
    [] e.t = "reg" -> Sym(TReg(e.n))
    [] e.t = "par" -> Sym(TPar(e.p))
    [] e.t = "var" -> IF ~Has(V, e.x) THEN Raise("BSE", e.x)
                      ELSE IF e.x \in PN THEN (IF Get(V, e.x).k = "arr" THEN PName(e.x) ELSE Raise("other", e.x))
                      ELSE Get(V, e.x)
    [] e.t = "idx" -> LET i == Eval(e.e, V, PN) IN
                      IF ~Has(V, e.x) THEN Raise("BSE", e.x)
                      ELSE IF IsRaise(i) THEN i
                      ELSE LET a == Get(V, e.x) IN
                           IF a.k # "arr" \/ ~IsExact(i) \/ i.k # "int" THEN Unspec
                           ELSE LET fl == Flatten(a.rows) IN
                                IF i.re[1] < 0 \/ i.re[1] >= Len(fl) THEN Unspec
                                ELSE fl[i.re[1] + 1]
    [] e.t = "brk" -> Eval(e.a, V, PN)
    [] e.t = "pos" -> Eval(e.a, V, PN)
    [] e.t = "neg" -> Neg(Eval(e.a, V, PN))
    [] e.t = "bin" -> Arith(e.op, Eval(e.l, V, PN), Eval(e.r, V, PN))
    [] e.t = "fn"  -> LET v == Eval(e.a, V, PN) IN IF v.k = "sym" THEN Unspec ELSE Apply(e.f, v)

\* template parameters appended to the parameter list while evaluating, in evaluation order
RECURSIVE ParamsIn(_)
ParamsIn(e) == CASE e.t = "par" -> <<e.p>>
                 [] e.t = "bin" -> ParamsIn(e.l) \o ParamsIn(e.r)
                 [] e.t \in {"brk", "pos", "neg", "fn"} -> ParamsIn(e.a)
                 [] e.t = "idx" -> ParamsIn(e.e)
                 [] OTHER -> <<>>
=============================================================================
