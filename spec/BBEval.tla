----------------------------- MODULE BBEval -----------------------------
(* Evaluation of Blackbird expressions (mirrors auxiliary._expression/_number/_func).        *)
(* Expression syntax trees (what the grammar's alternative order produces):                  *)
(*   [t |-> "int", n]  [t |-> "flt", n, d]  [t |-> "cpx", re, im]  [t |-> "pi"]             *)
(*   [t |-> "var", x]  [t |-> "reg", n]  [t |-> "idx", x, e]  [t |-> "par", p]              *)
(*   [t |-> "brk", a]  [t |-> "neg", a]  [t |-> "pos", a]  [t |-> "bin", op, l, r]          *)
(*   [t |-> "fn", f, a]       non-numeric literals: [t |-> "str", s]  [t |-> "bool", b]      *)
(* V is the variable table (sequence of [n, v]); PN the set of registered p-array names.     *)
EXTENDS BBValues

Has(V, n) == \E i \in 1..Len(V) : V[i].n = n
Get(V, n) == V[CHOOSE i \in 1..Len(V) : V[i].n = n].v
Put(V, n, v) == IF Has(V, n) THEN [i \in 1..Len(V) |-> IF V[i].n = n THEN [n |-> n, v |-> v] ELSE V[i]]
                ELSE Append(V, [n |-> n, v |-> v])
Del(V, n) == SelectSeq(V, LAMBDA e : e.n # n)
Names(V) == [i \in 1..Len(V) |-> V[i].n]


NegS(v) == CASE IsBad(v) -> v
             [] v.k = "sym" -> Sym(TNeg(v.term))
             [] IsNum(v) -> IF v.x THEN Num(v.k, QNeg(v.re), QNeg(v.im)) ELSE Inx(v.k, TNeg(v.term))
             [] OTHER -> U("BBEval:22")

\* ---- whole arrays in expressions (NumPy semantics of the evaluator): element by element, for arrays of numbers of equal shape.
\* An array combined with a scalar by + - * / goes through np.sum/np.prod of a ragged list, whose behaviour depends on the NumPy
\* version: unspecified.  Powers (np.power), unary minus and the functions broadcast a scalar.
NumArr(a) == a.k = "arr" /\ \A r \in 1..Len(a.rows) : \A c \in 1..Len(a.rows[r]) : IsNum(a.rows[r][c])
SameShape(a, b) == Len(a.rows) = Len(b.rows) /\ \A r \in 1..Len(a.rows) : Len(a.rows[r]) = Len(b.rows[r])
MapArr(a, Op(_, _, _)) ==      \* Op(value, row, column); any element outside the model makes the whole result unspecified
  LET rows == [r \in 1..Len(a.rows) |-> [c \in 1..Len(a.rows[r]) |-> Op(a.rows[r][c], r, c)]]
  IN IF \E r \in 1..Len(rows) : \E c \in 1..Len(rows[r]) : ~IsNum(rows[r][c]) THEN U("BBEval:31")
     ELSE IF Len(rows) = 0 \/ Len(rows[1]) = 0 THEN U("BBEval:32")
     ELSE Arr(rows[1][1].k, rows)
Neg(v) == IF v.k = "arr" THEN (IF NumArr(v) THEN MapArr(v, LAMBDA x, r, c : NegS(x)) ELSE U("BBEval:34")) ELSE NegS(v)

TooBig(k) == [k |-> "big", kind |-> k]     \* the exact result leaves TLC's integer range: kept as a term instead
ExactArith(op, a, b) ==
  LET k == MaxKind(a.k, b.k) IN
  CASE op = "+" -> LET c == CAdd(a, b) IN Num(k, c.re, c.im)
    [] op = "-" -> LET c == CSub(a, b) IN Num(k, c.re, c.im)
    [] op = "*" -> LET c == CMul(a, b) IN Num(k, c.re, c.im)
    [] op = "/" -> IF CIsZero(b) THEN U("BBEval:42")
                   ELSE LET c == CMul(a, CInv(b)) IN Num(IF k = "int" THEN "float" ELSE k, c.re, c.im)
    [] op = "**" ->
         IF b.im[1] = 0 /\ QIsInt(b.re) /\ (Abs(b.re[1]) <= 40 \/ b.k = "int")
         THEN IF Abs(b.re[1]) > 40 THEN U("BBEval:46")
              ELSE IF b.re[1] >= 0
              THEN LET p == CPow(a, b.re[1]) IN IF p.ok THEN Num(k, p.re, p.im) ELSE TooBig(k)
              ELSE IF k = "int" \/ CIsZero(a) THEN U("BBEval:49")          \* int ** negative int, 0 ** negative
                   ELSE LET p == CPow(CInv(a), -b.re[1]) IN IF p.ok THEN Num(k, p.re, p.im) ELSE TooBig(k)
         ELSE IF a.im[1] = 0 /\ a.re[1] > 0 /\ b.im[1] = 0
              THEN Inx(IF k = "int" THEN "float" ELSE k, TBin("**", TNum(a), TNum(b)))   \* positive base, real exponent
              ELSE U("BBEval:53")


RECURSIVE PosTerm(_)
PosTerm(t) == CASE t.t = "pi" -> TRUE
                [] t.t = "num" -> IsExact(t.v) /\ t.v.k # "complex" /\ ~VBig(t.v) /\ QLt(QZero, t.v.re)
                [] t.t = "bin" -> (CASE t.op \in {"+", "*", "/"} -> PosTerm(t.l) /\ PosTerm(t.r) [] t.op = "**" -> PosTerm(t.l) [] OTHER -> FALSE)
                [] t.t = "fn" -> (CASE t.f \in {"exp", "cosh"} -> TRUE [] t.f \in {"sqrt", "sinh", "arcsinh", "tanh", "arctan"} -> PosTerm(t.a) [] OTHER -> FALSE)
                [] OTHER -> FALSE
\* a power with an inexact operand: defined wherever the base cannot be negative or zero in a way the model cannot see
InexactPow(a, b, k) ==
  IF b.x /\ b.k # "complex" /\ ~VBig(b) /\ QIsInt(b.re) /\ b.re[1] >= 0 /\ b.re[1] <= 40
  THEN Inx(k, TBin("**", TermOf(a), TermOf(b)))                                   \* any base to a small natural power
  ELSE IF a.k # "complex" /\ b.k # "complex" /\ k # "int" /\ (IF a.x THEN ~VBig(a) /\ QLt(QZero, a.re) ELSE PosTerm(a.term))
  THEN Inx(k, TBin("**", TermOf(a), TermOf(b)))                                   \* a positive base to a real power (an integer
                                                                                   \* to an inexact integer power: sign of the exponent unknown)
  ELSE U("BBEval:InexactPow")
ArithS(op, a, b) ==
  CASE IsRaise(a) -> a
    [] IsRaise(b) -> b
    [] a.k = "unspec" \/ b.k = "unspec" -> U("BBEval:59")
    [] a.k = "sym" \/ b.k = "sym" ->
         IF op = "/" /\ IsExact(b) /\ CIsZero(b) THEN U("BBEval:61")                    \* division by zero: not finite
         ELSE IF (a.k = "sym" \/ IsNum(a)) /\ (b.k = "sym" \/ IsNum(b)) THEN Sym(TBin(op, TermOf(a), TermOf(b))) ELSE U("BBEval:62")
    [] IsNum(a) /\ IsNum(b) ->
         IF a.x /\ b.x
         THEN IF VBig(a) \/ VBig(b) THEN U("BBEval:65")
              ELSE LET r == ExactArith(op, a, b) IN
                   IF r.k = "big" THEN Inx(r.kind, TBin(op, TNum(a), TNum(b)))
                   ELSE IF IsExact(r) /\ VBig(r) THEN Inx(r.k, TBin(op, TNum(a), TNum(b)))
                   ELSE r
         ELSE LET k == MaxKind(a.k, b.k) IN
              IF op = "**" THEN InexactPow(a, b, k)
              ELSE Inx(IF k = "int" /\ op = "/" THEN "float" ELSE k, TBin(op, TermOf(a), TermOf(b)))
    [] OTHER -> U("BBEval:73")

Arith(op, a, b) ==
  CASE IsRaise(a) -> a
    [] IsRaise(b) -> b
    [] a.k = "arr" /\ b.k = "arr" ->
         IF ~NumArr(a) \/ ~NumArr(b) \/ ~SameShape(a, b) THEN U("BBEval:79")
         ELSE IF op = "/" /\ b.ty = "int" THEN U("BBEval:80")             \* np.power(integer array, -1) is refused by NumPy
         ELSE MapArr(a, LAMBDA x, r, c : ArithS(op, x, b.rows[r][c]))
    [] a.k = "arr" -> IF op = "**" /\ NumArr(a) /\ IsNum(b) THEN MapArr(a, LAMBDA x, r, c : ArithS(op, x, b)) ELSE U("BBEval:82")
    [] b.k = "arr" -> IF op = "**" /\ NumArr(b) /\ IsNum(a) THEN MapArr(b, LAMBDA x, r, c : ArithS(op, a, x)) ELSE U("BBEval:83")
    [] OTHER -> ArithS(op, a, b)

Fns == {"sin", "cos", "tan", "arcsin", "arccos", "arctan", "sinh", "cosh", "tanh",
        "arcsinh", "arccosh", "arctanh", "sqrt", "log", "exp"}
\* real domain of each function on exact real arguments (outside: not compared)
InDomain(f, v) ==
  /\ IsExact(v) /\ v.k # "complex" /\ ~VBig(v)
  /\ CASE f \in {"arcsin", "arccos"} -> ~QLt(v.re, <<-1, 1>>) /\ ~QLt(QOne, v.re)
       [] f = "arctanh" -> QLt(<<-1, 1>>, v.re) /\ QLt(v.re, QOne)
       [] f = "arccosh" -> ~QLt(v.re, QOne)
       [] f = "sqrt" -> ~QLt(v.re, QZero)
       [] f = "log" -> QLt(QZero, v.re)
       [] f = "tan" -> TRUE
       [] f \in {"exp", "sinh", "cosh"} -> QLt(v.re, <<20, 1>>) /\ QLt(<<-20, 1>>, v.re)
       [] OTHER -> TRUE
\* An inexact argument (pi, a function value, ...) cannot be located exactly by the model.  Where only a VALUE is compared
\* (MC_C03) the harness evaluator rejects arguments outside the domain; in a loader run a NaN may reach a type check and raise,
\* so there (StrictDomains) a function with a restricted domain is applied only to terms that are positive by construction.
StrictDomains == TRUE
\* an upper bound of |value| of a real term (-1: none known), so that exp/sinh/cosh of it stays finite
RECURSIVE Bound(_)
Bound(t) == CASE t.t = "pi" -> 4
              [] t.t = "num" -> (IF IsExact(t.v) /\ t.v.k # "complex" /\ ~VBig(t.v) THEN (Abs(t.v.re[1]) \div t.v.re[2]) + 1 ELSE -1)
              [] t.t = "neg" -> Bound(t.a)
              [] t.t = "bin" -> LET a == Bound(t.l) b == Bound(t.r) IN
                                (CASE a < 0 \/ b < 0 \/ a > 1000 \/ b > 1000 -> -1
                                   [] t.op \in {"+", "-"} -> a + b
                                   [] t.op = "*" -> a * b
                                   [] OTHER -> -1)
              [] t.t = "fn" -> (CASE t.f \in {"sin", "cos", "tanh"} -> 1 [] t.f = "arctan" -> 2
                                  [] t.f \in {"sqrt", "arcsinh"} -> (IF Bound(t.a) < 0 THEN -1 ELSE Bound(t.a) + 1) [] OTHER -> -1)
              [] OTHER -> -1
TotalFns == {"sin", "cos", "arctan", "tanh", "arcsinh", "tan"}
ApplyS(f, v) == CASE IsBad(v) -> v
                 [] InDomain(f, v) -> Inx("float", TFn(f, TNum(v)))
                 [] IsNum(v) /\ ~v.x /\ v.k = "float" ->
                      IF ~StrictDomains \/ f \in TotalFns \/ (f \in {"sqrt", "log"} /\ PosTerm(v.term))
                         \/ (f \in {"exp", "sinh", "cosh"} /\ Bound(v.term) \in 0..20) THEN Inx("float", TFn(f, v.term)) ELSE U("BBEval:127")
                 [] OTHER -> U("BBEval:128")

Apply(f, v) == IF v.k = "arr" THEN (IF NumArr(v) THEN MapArr(v, LAMBDA x, r, c : ApplyS(f, x)) ELSE U("BBEval:130")) ELSE ApplyS(f, v)

Flatten(rows) == LET RECURSIVE F(_) F(i) == IF i > Len(rows) THEN <<>> ELSE rows[i] \o F(i + 1) IN F(1)

RECURSIVE Eval(_, _, _)
Eval(e, V, PN) ==
  CASE e.t = "int" -> IntV(e.n)
    [] e.t = "flt" -> Flt(e.n, e.d)
    [] e.t = "cpx" -> Num("complex", QNorm(e.re[1], e.re[2]), QNorm(e.im[1], e.im[2]))
    [] e.t = "pi"  -> Inx("float", TPi)
    [] e.t = "atom" -> Inx(e.k, [t |-> "atom", a |-> e.a])   \* a literal too long for TLC's integers: opaque, valued by the harness
    [] e.t = "val" -> e.v                      \* a literal denoting exactly this value (serialised numbers)
    [] e.t = "str" -> Str(e.s)
    [] e.t = "bool" -> Bool(e.b)
    [] e.t = "reg" -> Sym(TReg(e.n))
    [] e.t = "par" -> Sym(TPar(e.p))
    [] e.t = "var" -> IF ~Has(V, e.x) THEN Raise("BSE", e.x)
                      ELSE IF e.x \in PN THEN (IF Get(V, e.x).k = "arr" THEN PName(e.x) ELSE Raise("other", e.x))
                      ELSE Get(V, e.x)
    [] e.t = "idx" -> LET i == Eval(e.e, V, PN) IN
                      IF ~Has(V, e.x) THEN Raise("BSE", e.x)
                      ELSE IF IsRaise(i) THEN i
                      ELSE LET a == Get(V, e.x) IN
                           IF a.k # "arr" \/ ~IsExact(i) \/ i.k # "int" THEN U("BBEval:153")
                           ELSE LET fl == Flatten(a.rows) IN
                                IF i.re[1] < 0 THEN U("BBEval:negative-index")         \* NumPy counts a negative index from the end
                                ELSE IF i.re[1] >= Len(fl) THEN Raise("other", "index")
                                ELSE fl[i.re[1] + 1]
    [] e.t = "brk" -> Eval(e.a, V, PN)
    [] e.t = "pos" -> Eval(e.a, V, PN)
    [] e.t = "neg" -> Neg(Eval(e.a, V, PN))
    [] e.t = "bin" -> Arith(e.op, Eval(e.l, V, PN), Eval(e.r, V, PN))
    [] e.t = "fn"  -> LET v == Eval(e.a, V, PN) IN IF v.k = "sym" THEN U("BBEval:161") ELSE Apply(e.f, v)

\* template parameters appended to the parameter list while evaluating, in evaluation order
RECURSIVE ParamsIn(_)
ParamsIn(e) == CASE e.t = "par" -> <<e.p>>
                 [] e.t = "bin" -> ParamsIn(e.l) \o ParamsIn(e.r)
                 [] e.t \in {"brk", "pos", "neg", "fn"} -> ParamsIn(e.a)
                 [] e.t = "idx" -> ParamsIn(e.e)
                 [] OTHER -> <<>>
=============================================================================
